"""
pyvc engine: path-splitting symbolic executor over the Python AST of /repo.

One *path* is executed at a time by a plain recursive interpreter over symbolic
values; every nondeterministic choice (a symbolic branch, a stub with several
outcomes) asks the path oracle, which replays a decision prefix and schedules the
untaken feasible alternatives.  Loops are cut at their head by sidecar invariants.
Obligations are discharged on the spot against the path condition (z3, then cvc5
for `unknown`) and cached by (decision prefix, ordinal) so a shared prefix is not
re-proved.
"""
import ast
import hashlib
import os
import subprocess
import tempfile
import time

import z3

from .values import *  # noqa: F401,F403
from . import values as _v

Z3_TIMEOUT_MS = int(os.environ.get('PYVC_Z3_TIMEOUT_MS', '10000'))
CVC5_TIMEOUT_MS = int(os.environ.get('PYVC_CVC5_TIMEOUT_MS', '10000'))
CVC5_BIN = '/usr/bin/cvc5'


# ------------------------------------------------------------------ control flow
class PathEnd(Exception):
    """This path is complete (cut at a loop head, infeasible, assumed false)."""


class PyExc(Exception):
    """A Python exception propagating through the interpreted program."""

    def __init__(self, exc):
        super().__init__(repr(exc))
        self.exc = exc


class _Return(Exception):
    def __init__(self, value):
        self.value = value


class _Break(Exception):
    pass


class _Continue(Exception):
    pass


# ------------------------------------------------------------------ results
class Obligation:
    __slots__ = ('name', 'props', 'status', 'backend', 'time', 'model', 'site', 'path', 'detail')

    def __init__(self, name, props, status, backend, t, model=None, site=None, path=None, detail=None):
        self.name = name
        self.props = props
        self.status = status      # 'unsat' (discharged) | 'sat' (fails) | 'unknown'
        self.backend = backend
        self.time = t
        self.model = model
        self.site = site
        self.path = path
        self.detail = detail

    def as_dict(self):
        return dict(name=self.name, props=sorted(self.props or ()), status=self.status,
                    backend=self.backend, time=round(self.time, 4), model=self.model,
                    site=self.site, path=self.path, detail=self.detail)


class FunctionReport:
    def __init__(self, name):
        self.name = name
        self.obligations = []      # Obligation instances (per path)
        self.paths = 0
        self.unsupported = []      # (msg, lineno)
        self.covers = []           # (name, reached: bool)
        self.canaries = []         # (name, ok)
        self.assumptions = set()   # names of stub contracts / rely clauses used
        self.effects_seen = set()
        self.solver_time = 0.0
        self.errors = []
        self.source = None         # dict(file, sha256, lines)
        self.second = dict(asked=0, unsat=0, unknown=0, sat=0)
        self.functions = {}        # qualname -> [first line, last line] of every /repo function body executed
        self.dropped = set()

    def as_dict(self):
        return dict(name=self.name, paths=self.paths,
                    obligations=[o.as_dict() for o in self.obligations],
                    unsupported=self.unsupported, covers=self.covers, canaries=self.canaries,
                    assumptions=sorted(self.assumptions), solver_time=round(self.solver_time, 3),
                    errors=self.errors, source=self.source, dropped=sorted(self.dropped), second=self.second,
                    functions=self.functions,
                    effects_seen=sorted(self.effects_seen))


# ------------------------------------------------------------------ source model
class ClassInfo:
    def __init__(self, name, node, module, bases):
        self.name = name
        self.node = node
        self.module = module
        self.bases = bases      # list of base names (str)
        self.methods = {}
        self.attrs = {}         # class-level assignments (ast expr)
        for st in node.body:
            if isinstance(st, (ast.FunctionDef, ast.AsyncFunctionDef)):
                self.methods[st.name] = st
            elif isinstance(st, ast.Assign) and len(st.targets) == 1 and isinstance(st.targets[0], ast.Name):
                self.attrs[st.targets[0].id] = st.value
            elif isinstance(st, ast.AnnAssign) and isinstance(st.target, ast.Name) and st.value is not None:
                self.attrs[st.target.id] = st.value

    def mro(self):
        out = [self]
        for b in self.bases:
            ci = self.module.classes.get(b)
            if ci is not None:
                for c in ci.mro():
                    if c not in out:
                        out.append(c)
        return out

    def find(self, name):
        for c in self.mro():
            if name in c.methods:
                return c, c.methods[name]
        return None, None

    def find_attr(self, name):
        for c in self.mro():
            if name in c.attrs:
                return c, c.attrs[name]
        return None, None


class ModuleInfo:
    """AST of one /repo module, re-read from disk on every run."""

    def __init__(self, modname, path):
        self.name = modname
        self.path = path
        with open(path, 'rb') as f:
            raw = f.read()
        self.sha256 = hashlib.sha256(raw).hexdigest()
        self.text = raw.decode()
        self.tree = ast.parse(self.text, filename=path)
        self.functions = {}
        self.classes = {}
        self.assigns = {}      # module-level name -> ast expr (last simple assignment)
        self.imports = {}      # local name -> dotted origin
        for st in self.tree.body:
            self._scan(st)

    def _scan(self, st):
        if isinstance(st, (ast.FunctionDef, ast.AsyncFunctionDef)):
            # keep the LAST definition that is not an @overload stub
            if not any(isinstance(d, ast.Name) and d.id == 'overload' for d in st.decorator_list):
                self.functions[st.name] = st
        elif isinstance(st, ast.ClassDef):
            bases = []
            for b in st.bases:
                if isinstance(b, ast.Name):
                    bases.append(b.id)
                elif isinstance(b, ast.Attribute):
                    bases.append(ast.unparse(b))
                elif isinstance(b, ast.Subscript) and isinstance(b.value, ast.Name):
                    bases.append(b.value.id)
            self.classes[st.name] = ClassInfo(st.name, st, self, bases)
        elif isinstance(st, ast.Assign) and len(st.targets) == 1 and isinstance(st.targets[0], ast.Name):
            self.assigns[st.targets[0].id] = st.value
        elif isinstance(st, ast.AnnAssign) and isinstance(st.target, ast.Name) and st.value is not None:
            self.assigns[st.target.id] = st.value
        elif isinstance(st, ast.Import):
            for a in st.names:
                self.imports[a.asname or a.name.split('.')[0]] = a.name
        elif isinstance(st, ast.ImportFrom):
            for a in st.names:
                self.imports[a.asname or a.name] = ('.' * st.level) + (st.module or '') + ':' + a.name
        elif isinstance(st, ast.If):
            # module-level platform selection (filelock.FileLock): recorded, evaluated by contracts
            self.assigns.setdefault('__ifs__', []).append(st) if False else None

    def lookup_function(self, qual):
        """qual relative to the module: 'f', 'C.m', 'f.<locals>.g', 'C.m.<locals>.g'."""
        parts = [p for p in qual.split('.') if p != '<locals>']
        node = None
        body = self.tree.body
        cls = None
        for i, p in enumerate(parts):
            found = None
            for st in _walk_defs(body):
                if isinstance(st, (ast.FunctionDef, ast.AsyncFunctionDef, ast.ClassDef)) and st.name == p:
                    if isinstance(st, ast.ClassDef) or not any(
                            isinstance(d, ast.Name) and d.id == 'overload' for d in st.decorator_list):
                        found = st
            if found is None:
                return None, None
            if isinstance(found, ast.ClassDef):
                cls = self.classes.get(found.name)
            node = found
            body = found.body
        return node, cls


def _walk_defs(body):
    """Definitions reachable in a body without entering nested defs (but through if/try/with)."""
    for st in body:
        if isinstance(st, (ast.FunctionDef, ast.AsyncFunctionDef, ast.ClassDef)):
            yield st
        elif isinstance(st, ast.If):
            yield from _walk_defs(st.body)
            yield from _walk_defs(st.orelse)
        elif isinstance(st, ast.Try):
            yield from _walk_defs(st.body)
            yield from _walk_defs(st.orelse)
            yield from _walk_defs(st.finalbody)
            for h in st.handlers:
                yield from _walk_defs(h.body)
        elif isinstance(st, (ast.With, ast.AsyncWith, ast.For, ast.AsyncFor, ast.While)):
            yield from _walk_defs(st.body)


class Frame:
    __slots__ = ('env', 'parent', 'func', 'module', 'loop_counter', 'qualname', 'is_gen', 'gen_out',
                 'self_cls', 'site_counts', 'loop_assigned')

    def __init__(self, func, module, parent=None, qualname=None):
        self.env = {}
        self.parent = parent
        self.func = func
        self.module = module
        self.loop_counter = {}
        self.qualname = qualname
        self.is_gen = False
        self.gen_out = None
        self.self_cls = None
        self.site_counts = {}
        self.loop_assigned = set()     # locals first assigned inside a loop that was cut by an invariant

    def lookup(self, name):
        f = self
        while f is not None:
            if name in f.env:
                return f.env[name]
            f = f.parent
        raise KeyError(name)

    def has(self, name):
        f = self
        while f is not None:
            if name in f.env:
                return True
            f = f.parent
        return False


# ------------------------------------------------------------------ the path
class Path:
    def __init__(self, prefix, axioms):
        self.prefix = list(prefix)
        self.pos = 0
        self.decisions = []
        self.alternatives = []
        self.solver = z3.Solver()
        self.solver.set('timeout', Z3_TIMEOUT_MS)
        self.pc = []
        self.n_obl = 0
        self.fresh = {}
        self.hier = False
        for a in axioms:
            self.solver.add(a)
            self.pc.append(a)


class Engine:
    """Verification session for one function under contract (one process)."""

    def __init__(self, modules, stubs=None):
        self.modules = modules              # name -> ModuleInfo
        self.report = None
        self.path = None
        self.cache = {}                     # (decisions tuple, ordinal) -> Obligation
        self.w = {}                         # world / ghost state: name -> z3 term
        self.effects = []                   # recorded world effects on this path
        self.hooks = {}                     # loop invariants etc: (qualname, 'loop', n) -> fn
        self.specs = {}                     # qualname -> Spec (used at call sites instead of the body)
        self.inline = set()                 # qualnames executed inline at call sites
        self.builtins = {}
        self.module_ns = {}                 # module name -> {name: V}
        self.props_default = frozenset()
        self.me = None
        self.axioms = []
        self.stmt_hook = None               # called before every statement (pre-emptive yield points)
        self.await_hook = None
        self.max_paths = int(os.environ.get('PYVC_MAX_PATHS', '4000'))
        self.depth = 0
        self.dropped = set()
        self.on_path_start = None
        self.cur_func = None
        self.feas_timeout_ms = int(os.environ.get('PYVC_FEAS_TIMEOUT_MS', '2000'))
        self.mbqi_retry = False
        self.second_opinion = int(os.environ.get('PYVC_SECOND_OPINION', '0') or 0)

    # ---------------------------------------------------------- path management
    def run_paths(self, body):
        """Explore all paths of body() (a function of no args driving the interpreter)."""
        stack = [[]]
        while stack:
            if self.report.paths >= self.max_paths:
                self.report.unsupported.append(('path budget exceeded (%d)' % self.max_paths, 0))
                break
            prefix = stack.pop()
            self.path = Path(prefix, self.axioms)
            self.w = {}
            self.effects = []
            self.module_ns = {}
            self.report.paths += 1
            try:
                if self.on_path_start:
                    self.on_path_start()
                body()
            except PathEnd:
                pass
            except Unsupported as u:
                ln = getattr(u.node, 'lineno', 0) if u.node is not None else 0
                item = (u.msg, ln)
                if item not in self.report.unsupported:
                    self.report.unsupported.append(item)
            except RecursionError:
                self.report.unsupported.append(('recursion limit', 0))
            stack.extend(self.path.alternatives)

    def fresh_name(self, base):
        n = self.path.fresh.get(base, 0)
        self.path.fresh[base] = n + 1
        return '%s!%d' % (base, n)

    def fresh(self, base, sort):
        return z3.Const(self.fresh_name(base), sort)

    def fresh_int(self, base='i'):
        return VInt(self.fresh(base, z3.IntSort()))

    def fresh_real(self, base='r'):
        return VReal(self.fresh(base, z3.RealSort()))

    def fresh_bool(self, base='b'):
        return VBool(self.fresh(base, z3.BoolSort()))

    def fresh_str(self, base='s'):
        return VStr(self.fresh(base, z3.StringSort()))

    def fresh_val(self, base='v', sort=None):
        return VVal(self.fresh(base, sort if sort is not None else ValS))

    def fresh_like(self, v, base='h'):
        """A fresh value of the same shape as v (used to havoc)."""
        if isinstance(v, VInt):
            return self.fresh_int(base)
        if isinstance(v, VReal):
            return self.fresh_real(base)
        if isinstance(v, VBool):
            return self.fresh_bool(base)
        if isinstance(v, VStr):
            return self.fresh_str(base)
        if isinstance(v, VVal):
            return VVal(self.fresh(base, v.t.sort()))
        if isinstance(v, VOpt):
            return VOpt(self.fresh(base + '_none', z3.BoolSort()), self.fresh_like(v.val, base))
        if isinstance(v, VTuple):
            return VTuple([self.fresh_like(x, base) for x in v.items])
        if isinstance(v, VSeq):
            return VSeq(self.fresh(base, v.t.sort()), v.wrap)
        if isinstance(v, VNone):
            return v
        raise Unsupported('cannot havoc value of shape %r' % (v,))

    def assume(self, f):
        if isinstance(f, bool):
            if not f:
                raise PathEnd()
            return
        self.path.solver.add(f)
        self.path.pc.append(f)

    def need_hierarchy(self):
        if not self.path.hier:
            self.path.hier = True
            for a in _v.hierarchy_axioms(with_rare=getattr(self, 'rare_oserrors', False)):
                self.assume(a)

    def check(self, f, timeout_ms=None):
        """sat / unsat / unknown of pc /\\ f."""
        t0 = time.time()
        self.path.solver.set('timeout', timeout_ms or self.feas_timeout_ms)
        r = self.path.solver.check(f)
        self.path.solver.set('timeout', Z3_TIMEOUT_MS)
        self.report.solver_time += time.time() - t0
        return r

    def feasible(self, f):
        return self.check(f) != z3.unsat

    def choose(self, alts, label='choice'):
        """alts: list of (tag, condition-or-None). Returns the tag of the chosen one, with its
        condition assumed. Untaken feasible alternatives are scheduled."""
        p = self.path
        if p.pos < len(p.prefix):
            i = p.prefix[p.pos]
            p.pos += 1
            p.decisions.append(i)
            tag, cond = alts[i]
            if cond is not None:
                self.assume(cond)
            return tag
        feas = []
        for i, (tag, cond) in enumerate(alts):
            if cond is None or self.feasible(cond):
                feas.append(i)
        if not feas:
            raise PathEnd()
        first = feas[0]
        for i in feas[1:]:
            p.alternatives.append(p.decisions + [i])
        p.pos += 1
        p.prefix.append(first)
        p.decisions.append(first)
        tag, cond = alts[first]
        if cond is not None:
            self.assume(cond)
        return tag

    def branch(self, cond):
        """Python-level bool for a symbolic condition (forks the path if undetermined)."""
        if isinstance(cond, bool):
            return cond
        s = z3.simplify(cond)
        if z3.is_true(s):
            return True
        if z3.is_false(s):
            return False
        return self.choose([(True, s), (False, z3.Not(s))], 'branch')

    # ---------------------------------------------------------- obligations
    def oblige(self, name, goal, props=None, site=None, detail=None):
        """Record and discharge `pc => goal`; afterwards goal is assumed (unless it failed)."""
        p = self.path
        key = (tuple(p.decisions), p.n_obl, name)
        p.n_obl += 1
        props = frozenset(props) if props is not None else self.props_default
        if key in self.cache:
            if self.cache[key].status != 'sat' and not isinstance(goal, bool):
                self.assume(goal)
            return self.cache[key].status == 'unsat'
        if isinstance(goal, bool):
            goal = z3.BoolVal(goal)
        t0 = time.time()
        status, backend, model = self._discharge(goal)
        dt = time.time() - t0
        self.report.solver_time += dt
        ob = Obligation(name, props, status, backend, dt, model=model, site=site,
                        path=list(p.decisions), detail=detail)
        self.cache[key] = ob
        self.report.obligations.append(ob)
        # assert-then-assume -- except after a FAILED obligation: the violating states stay on the path, so that
        # obligations further down (which may belong to other properties) are still judged in them instead of
        # becoming vacuously true
        if status != 'sat':
            self.assume(goal)
        return status == 'unsat'

    def _discharge(self, goal):
        s = self.path.solver
        neg = z3.Not(goal)
        t_ob = getattr(self, 'z3_obligation_timeout_ms', None)
        if t_ob:
            # tasks whose obligations are sequence-heavy: z3's sequence solver either answers at once or not at all;
            # give up early and let cvc5 decide (below)
            s.set('timeout', t_ob)
        r = s.check(neg)
        if t_ob:
            s.set('timeout', Z3_TIMEOUT_MS)
        if r == z3.unsat:
            if self.second_opinion and self.report.second['asked'] < self.second_opinion:
                # thorough tier: independent second opinion from cvc5 on the same query
                self.report.second['asked'] += 1
                r2 = self._cvc5(neg, timeout_ms=3000)
                self.report.second[r2 if r2 in ('sat', 'unsat') else 'unknown'] += 1
                if r2 == 'sat':
                    return 'disagreement', 'z3:unsat/cvc5:sat', None
            return 'unsat', 'z3', None
        if r == z3.sat:
            try:
                m = s.model()
                model = {str(d): str(m[d]) for d in m.decls()[:80]}
            except Exception:
                model = {}
            return 'sat', 'z3', model
        # unknown: retry with model-based quantifier instantiation (finds counter-models of quantified
        # contexts that E-matching alone cannot decide), then a second opinion from cvc5
        if self.mbqi_retry:
            s3 = z3.Solver()
            s3.set('timeout', Z3_TIMEOUT_MS)
            s3.set('smt.mbqi', True)
            for a in self.path.pc:
                s3.add(a)
            s3.add(neg)
            r3 = s3.check()
            if r3 == z3.unsat:
                return 'unsat', 'z3-mbqi', None
            if r3 == z3.sat:
                try:
                    m = s3.model()
                    model = {str(d): str(m[d])[:300] for d in m.decls()[:80]}
                except Exception:
                    model = {}
                return 'sat', 'z3-mbqi', model
        r2 = self._cvc5(neg)
        if r2 == 'unsat':
            return 'unsat', 'cvc5', None
        if r2 == 'sat':
            return 'sat', 'cvc5', {}
        return 'unknown', 'z3+cvc5', {'reason': s.reason_unknown()}

    def _cvc5(self, extra, timeout_ms=None):
        global CVC5_TIMEOUT_MS
        if timeout_ms is not None:
            saved, CVC5_TIMEOUT_MS = CVC5_TIMEOUT_MS, timeout_ms
            try:
                return self._cvc5_run(extra)
            finally:
                CVC5_TIMEOUT_MS = saved
        return self._cvc5_run(extra)

    def _cvc5_run(self, extra):
        s2 = z3.Solver()
        for a in self.path.pc:
            s2.add(a)
        s2.add(extra)
        text = s2.to_smt2()
        fd, fn = tempfile.mkstemp(suffix='.smt2', prefix='pyvc_')
        try:
            with os.fdopen(fd, 'w') as f:
                f.write('(set-logic ALL)\n' + text)
            try:
                out = subprocess.run(
                    [CVC5_BIN, '--lang=smt2', '--strings-exp', '--tlimit=%d' % CVC5_TIMEOUT_MS, fn],
                    capture_output=True, text=True, timeout=CVC5_TIMEOUT_MS / 1000 + 5).stdout
            except Exception:
                return 'unknown'
            first = out.strip().splitlines()[0] if out.strip() else ''
            return first if first in ('sat', 'unsat') else 'unknown'
        finally:
            os.unlink(fn)

    def cover(self, name):
        """Vacuity guard: record that this program point is reachable with a satisfiable pc."""
        ok = self.check(z3.BoolVal(True)) != z3.unsat
        for i, (n, r) in enumerate(self.report.covers):
            if n == name:
                self.report.covers[i] = (n, r or ok)
                return
        self.report.covers.append((name, ok))

    def canary(self, name):
        """`False` must NOT be provable here; if it is, assumptions are contradictory."""
        r = self.check(z3.BoolVal(True))
        ok = (r != z3.unsat)      # `unknown` (quantified context): not known to be contradictory
        for i, (n, o) in enumerate(self.report.canaries):
            if n == name:
                self.report.canaries[i] = (n, o or ok)
                return
        self.report.canaries.append((name, ok))

    def effect(self, name, *args):
        self.effects.append((name,) + args)
        self.report.effects_seen.add(name)

    def used(self, assumption):
        self.report.assumptions.add(assumption)

    # ---------------------------------------------------------- exceptions
    def mk_exc(self, clsname, *args, **info):
        return VExc(EXC[clsname].term, args, info=info)

    def throw(self, clsname, *args, **info):
        raise PyExc(self.mk_exc(clsname, *args, **info))

    def exc_isinstance(self, exc, cls):
        """z3 Bool / python bool: isinstance(exc, cls) for VClass or tuple of VClass."""
        if isinstance(cls, VTuple):
            rs = [self.exc_isinstance(exc, c) for c in cls.items]
            if any(r is True for r in rs):
                return True
            rs = [r for r in rs if r is not False]
            return z3.Or(*rs) if rs else False
        if not isinstance(cls, VClass):
            raise Unsupported('except/isinstance against non-class %r' % (cls,))
        a = _known_cls(exc.cls)
        if a is not None and cls.name in EXC_PARENTS:
            return is_known_sub(a, cls.name)
        self.need_hierarchy()
        return sub(exc.cls, cls.term)

    # ---------------------------------------------------------- truthiness & ops
    def truth(self, v):
        """z3 Bool or python bool for Python truthiness of v."""
        if isinstance(v, VBool):
            c = v.concrete()
            return c if c is not None else v.t
        if isinstance(v, VInt):
            return v.t != 0
        if isinstance(v, VReal):
            return v.t != 0
        if isinstance(v, VNone):
            return False
        if isinstance(v, VOpt):
            return z3.And(z3.Not(v.isnone), _as_z3bool(self.truth(v.val)))
        if isinstance(v, VStr):
            return z3.Length(v.t) > 0
        if isinstance(v, VTuple):
            return len(v.items) > 0
        if isinstance(v, VList):
            return len(v.items) > 0
        if isinstance(v, VSeq):
            return z3.Length(v.t) > 0
        if isinstance(v, (VFunc, VBound, VStub, VClass, VPartial, VNamespace)):
            return True
        if isinstance(v, Obj) and v.cls == 'SeqList':
            return z3.Length(v.fields['seq']) > 0
        if isinstance(v, Obj):
            h = self.builtins.get('__truth__')
            if h:
                r = h(self, v)
                if r is not None:
                    return r
            return True
        if isinstance(v, VVal):
            # opaque user value: truthiness is an uninterpreted predicate of the value
            f = z3.Function('truthy_' + str(v.t.sort()), v.t.sort(), z3.BoolSort())
            return f(v.t)
        raise Unsupported('truthiness of %r' % (v,))

    def is_true(self, v):
        return self.branch(self.truth(v))

    def eq(self, a, b):
        """z3 Bool / python bool for Python a == b."""
        h = self.builtins.get('__eq__')
        if h is not None:
            r = h(self, a, b)
            if r is not None:
                return r
        if isinstance(a, VOpt) or isinstance(b, VOpt):
            if isinstance(a, VNone):
                return b.isnone
            if isinstance(b, VNone):
                return a.isnone
            if isinstance(a, VOpt) and isinstance(b, VOpt):
                return z3.Or(z3.And(a.isnone, b.isnone),
                             z3.And(z3.Not(a.isnone), z3.Not(b.isnone), _as_z3bool(self.eq(a.val, b.val))))
            if isinstance(a, VOpt):
                return z3.And(z3.Not(a.isnone), _as_z3bool(self.eq(a.val, b)))
            return z3.And(z3.Not(b.isnone), _as_z3bool(self.eq(a, b.val)))
        if isinstance(a, VNone) or isinstance(b, VNone):
            return isinstance(a, VNone) and isinstance(b, VNone)
        num = (VInt, VReal, VBool)
        if isinstance(a, num) and isinstance(b, num):
            return _num(a) == _num(b)
        if isinstance(a, VStr) and isinstance(b, VStr):
            return a.t == b.t
        if isinstance(a, VVal) and isinstance(b, VVal) and a.t.sort() == b.t.sort():
            return a.t == b.t
        if isinstance(a, VTuple) and isinstance(b, VTuple):
            if len(a.items) != len(b.items):
                return False
            rs = [self.eq(x, y) for x, y in zip(a.items, b.items)]
            if any(r is False for r in rs):
                return False
            rs = [r for r in rs if r is not True]
            return z3.And(*rs) if rs else True
        if isinstance(a, VSeq) and isinstance(b, VSeq):
            return a.t == b.t
        if isinstance(a, (Obj, VList, VFunc, VClass, VStub)) and isinstance(b, (Obj, VList, VFunc, VClass, VStub)):
            return a is b
        if type(a) is not type(b) and isinstance(a, (VStr, VTuple, VInt, VReal, VBool)) \
                and isinstance(b, (VStr, VTuple, VInt, VReal, VBool)):
            return False
        raise Unsupported('== between %r and %r' % (a, b))

    def identical(self, a, b):
        """Python `a is b`."""
        h = self.builtins.get('__identical__')
        if h is not None:
            r = h(self, a, b)
            if r is not None:
                return r
        if isinstance(a, VNone) or isinstance(b, VNone):
            o = b if isinstance(a, VNone) else a
            if isinstance(o, VNone):
                return True
            if isinstance(o, VOpt):
                return o.isnone
            if isinstance(o, VVal) and o.t.sort() == ValS:
                # an opaque user value (an argument, a result of user code) may well BE None
                return z3.Function('is_the_None_object', ValS, z3.BoolSort())(o.t)
            return False
        if isinstance(a, VOpt) or isinstance(b, VOpt):
            raise Unsupported('`is` on optional non-None values')
        if isinstance(a, VVal) and isinstance(b, VVal):
            if a.t.sort() != b.t.sort():
                return False
            if a.t.sort() == ValS:
                # identity of opaque Python values is finer than ==: uninterpreted
                f = z3.Function('same_object', ValS, ValS, z3.BoolSort())
                self.assume(z3.Implies(f(a.t, b.t), a.t == b.t))
                if z3.eq(a.t, b.t):
                    return True
                return f(a.t, b.t)
            return a.t == b.t     # abstract identities (Loop, Ev, Fut, ...) ARE identities
        if isinstance(a, VBool) and isinstance(b, VBool):
            return a.t == b.t
        if isinstance(a, Obj) and isinstance(b, Obj) and 'ident' in a.fields and 'ident' in b.fields:
            ia, ib = a.fields['ident'], b.fields['ident']
            if ia.sort() != ib.sort():
                return False
            return True if z3.eq(ia, ib) else ia == ib
        if isinstance(a, (Obj, VList, VFunc, VClass, VStub, VBound, VPartial, VNamespace, VCoro)) or \
                isinstance(b, (Obj, VList, VFunc, VClass, VStub, VBound, VPartial, VNamespace, VCoro)):
            if isinstance(a, VBound) and isinstance(b, VBound):
                return a.self is b.self and a.func is b.func
            if isinstance(a, VClass) and isinstance(b, VClass) and a is not b and \
                    (a.name.startswith('sym:') or b.name.startswith('sym:')):
                # a class given by the caller (symbolic) may BE any known class: identity of the class terms
                self.need_hierarchy()
                return a.term == b.term
            return a is b
        raise Unsupported('`is` between %r and %r' % (a, b))

    # ---------------------------------------------------------- module namespace
    def module_lookup(self, module, name, node=None):
        ns = self.module_ns.setdefault(module.name, {})
        if name in ns:
            return ns[name]
        if name in module.functions:
            f = VFunc(module.functions[name], None, module, module.name + '.' + name)
            ns[name] = f
            return f
        if name in module.classes:
            ci = module.classes[name]
            c = VClass(module.name + '.' + name, info=ci)
            ns[name] = c
            return c
        over = self.builtins.get(('module', module.name, name))
        if over is not None:
            ns[name] = over
            return over
        if name in module.imports:
            origin = module.imports[name]
            v = self.builtins.get(('import', origin))
            if v is None:
                v = self.builtins.get(('import', origin.split(':')[-1]))
            if v is None:
                raise Unsupported('import %s (%s) has no stub' % (name, origin), node)
            ns[name] = v
            return v
        if name in module.assigns:
            fr = Frame(None, module, None, module.name)
            v = self.eval(module.assigns[name], fr)
            ns[name] = v
            return v
        if name in self.builtins:
            return self.builtins[name]
        raise Unsupported('unknown name %s' % name, node)

    # ---------------------------------------------------------- expressions
    def eval(self, e, fr):
        m = getattr(self, 'e_' + type(e).__name__, None)
        if m is None:
            raise Unsupported('expression %s' % type(e).__name__, e)
        return m(e, fr)

    def e_Constant(self, e, fr):
        v = e.value
        if v is None:
            return NONE
        if isinstance(v, bool):
            return VBool(v)
        if isinstance(v, int):
            return VInt(v)
        if isinstance(v, float):
            return VReal(z3.RealVal(repr(v)))
        if isinstance(v, str):
            return VStr(v)
        if v is Ellipsis:
            return NONE
        raise Unsupported('constant %r' % (v,), e)

    def e_Name(self, e, fr):
        try:
            return fr.lookup(e.id)
        except KeyError:
            pass
        if fr.func is not None and e.id in _local_names(fr.func):
            # a local of this function that is not bound on this path
            f = fr
            while f is not None and f.func is fr.func:
                if e.id in f.loop_assigned:
                    raise MaybeUnbound('%s is read after the loop that assigns it (bound iff the loop ran)' % e.id, e)
                f = f.parent
            self.throw('UnboundLocalError', origin='unbound local %s' % e.id)
        return self.module_lookup(fr.module, e.id, e)

    def e_JoinedStr(self, e, fr):
        # f-strings: the embedded expressions are evaluated (they may raise, they may call); the text itself is an
        # opaque fresh string
        for part in e.values:
            if isinstance(part, ast.FormattedValue):
                try:
                    self.eval(part.value, fr)
                except MaybeUnbound:
                    raise
                except Unsupported:
                    pass
        return self.fresh_str('fstr')

    def e_Tuple(self, e, fr):
        items = []
        for x in e.elts:
            if isinstance(x, ast.Starred):
                items.extend(self.unpack_iter(self.eval(x.value, fr), x))
            else:
                items.append(self.eval(x, fr))
        return VTuple(items)

    def e_List(self, e, fr):
        h = self.builtins.get('__list_literal__')
        if h is not None:
            r = h(self, e, fr)
            if r is not None:
                return r
        items = []
        for x in e.elts:
            if isinstance(x, ast.Starred):
                items.extend(self.unpack_iter(self.eval(x.value, fr), x))
            else:
                items.append(self.eval(x, fr))
        return VList(items)

    def e_Dict(self, e, fr):
        h = self.builtins.get('__dict_literal__')
        if h is None:
            raise Unsupported('dict literal', e)
        return h(self, [(self.eval(k, fr), self.eval(v, fr)) for k, v in zip(e.keys, e.values)])

    def e_Set(self, e, fr):
        raise Unsupported('set literal', e)

    def e_NamedExpr(self, e, fr):
        v = self.eval(e.value, fr)
        fr.env[e.target.id] = v
        return v

    def e_IfExp(self, e, fr):
        if self.is_true(self.eval(e.test, fr)):
            return self.eval(e.body, fr)
        return self.eval(e.orelse, fr)

    def e_BoolOp(self, e, fr):
        last = None
        for x in e.values:
            last = self.eval(x, fr)
            t = self.is_true(last)
            if isinstance(e.op, ast.And) and not t:
                return last
            if isinstance(e.op, ast.Or) and t:
                return last
        return last

    def e_UnaryOp(self, e, fr):
        v = self.eval(e.operand, fr)
        if isinstance(e.op, ast.Not):
            t = self.truth(v)
            return VBool(not t) if isinstance(t, bool) else VBool(z3.Not(t))
        if isinstance(e.op, ast.USub):
            v = self.unopt(v, e)
            if isinstance(v, VInt):
                return VInt(-v.t)
            if isinstance(v, VReal):
                return VReal(-v.t)
        raise Unsupported('unary %s on %r' % (type(e.op).__name__, v), e)

    def unopt(self, v, node=None, what='operand'):
        """Use of a maybe-None value where None would raise TypeError."""
        if isinstance(v, VOpt):
            self.oblige('typesafe.not_none@%s' % _site(node), z3.Not(v.isnone),
                        site=getattr(node, 'lineno', None))
            return v.val
        return v

    def e_BinOp(self, e, fr):
        a = self.unopt(self.eval(e.left, fr), e)
        b = self.unopt(self.eval(e.right, fr), e)
        return self.binop(e.op, a, b, e)

    def binop(self, op, a, b, node=None):
        num = (VInt, VReal, VBool)
        if isinstance(a, num) and isinstance(b, num):
            both_int = isinstance(a, (VInt, VBool)) and isinstance(b, (VInt, VBool))
            x, y = _num(a), _num(b)
            if isinstance(op, ast.Add):
                r = x + y
            elif isinstance(op, ast.Sub):
                r = x - y
            elif isinstance(op, ast.Mult):
                r = x * y
            elif isinstance(op, ast.Div):
                dz = _num(b) == 0
                if self.branch(dz):
                    self.throw('ZeroDivisionError')
                xr = z3.ToReal(x) if x.sort() == z3.IntSort() else x
                yr = z3.ToReal(y) if y.sort() == z3.IntSort() else y
                return VReal(xr / yr)
            elif isinstance(op, (ast.BitOr, ast.BitAnd)) and both_int:
                ca, cb = _conc_int(a), _conc_int(b)
                if ca is None or cb is None:
                    raise Unsupported('bit operation on symbolic ints', node)
                return VInt(ca | cb if isinstance(op, ast.BitOr) else ca & cb)
            else:
                raise Unsupported('binary %s on numbers' % type(op).__name__, node)
            return VInt(r) if both_int else VReal(r)
        if isinstance(a, VStr) and isinstance(b, VStr) and isinstance(op, ast.Add):
            return VStr(z3.Concat(a.t, b.t))
        if isinstance(a, VTuple) and isinstance(b, VTuple) and isinstance(op, ast.Add):
            return VTuple(a.items + b.items)
        if isinstance(op, ast.Mult) and ((isinstance(a, VTuple) and isinstance(b, VInt)) or
                                         (isinstance(a, VInt) and isinstance(b, VTuple))):
            t, n = (a, b) if isinstance(a, VTuple) else (b, a)
            c = _conc_int(n)
            if c is None:
                raise Unsupported('tuple repeated a symbolic number of times', node)
            return VTuple(list(t.items) * max(c, 0))   # the SAME objects, c times over
        h = self.builtins.get('__binop__')
        if h is not None:
            r = h(self, op, a, b, node)
            if r is not None:
                return r
        raise Unsupported('binary %s on %r, %r' % (type(op).__name__, a, b), node)

    def e_Compare(self, e, fr):
        left = self.eval(e.left, fr)
        res = []
        for op, rhs in zip(e.ops, e.comparators):
            right = self.eval(rhs, fr)
            r = self.compare(op, left, right, e)
            if len(e.ops) == 1:
                return _mkbool(r)
            # chained: short-circuit
            if not self.branch(r):
                return VBool(False)
            left = right
        return VBool(True)

    def compare(self, op, a, b, node=None):
        if isinstance(op, ast.Is):
            return self.identical(a, b)
        if isinstance(op, ast.IsNot):
            return _neg(self.identical(a, b))
        if isinstance(op, ast.Eq):
            return self.eq(a, b)
        if isinstance(op, ast.NotEq):
            return _neg(self.eq(a, b))
        if isinstance(op, (ast.Lt, ast.LtE, ast.Gt, ast.GtE)):
            a = self.unopt(a, node)
            b = self.unopt(b, node)
            num = (VInt, VReal, VBool)
            if isinstance(a, num) and isinstance(b, num):
                x, y = _num(a), _num(b)
                return {ast.Lt: x < y, ast.LtE: x <= y, ast.Gt: x > y, ast.GtE: x >= y}[type(op)]
            raise Unsupported('ordering on %r, %r' % (a, b), node)
        if isinstance(op, (ast.In, ast.NotIn)):
            h = self.builtins.get('__contains__')
            if h is None:
                raise Unsupported('in', node)
            r = h(self, b, a, node)
            return r if isinstance(op, ast.In) else _neg(r)
        raise Unsupported('comparison %s' % type(op).__name__, node)

    def e_Attribute(self, e, fr):
        o = self.eval(e.value, fr)
        return self.getattr(o, e.attr, e)

    def getattr(self, o, name, node=None):
        if isinstance(o, VNone) and not name.startswith('__'):
            self.throw('AttributeError', origin='attribute %s of None' % name)
        if isinstance(o, VNamespace):
            if name in o.attrs:
                return o.attrs[name]
            raise Unsupported('%s.%s has no stub' % (o.name, name), node)
        if isinstance(o, Obj) and o.cls == 'SeqList':
            return self._seqlist_attr(o, name, node)
        if isinstance(o, Obj):
            if name in o.fields:
                return o.fields[name]
            ci = o.cls if isinstance(o.cls, ClassInfo) else None
            if ci is not None:
                c, m = ci.find(name)
                if m is not None:
                    decos = [ast.unparse(d) for d in m.decorator_list]
                    f = VFunc(m, None, c.module, '%s.%s.%s' % (c.module.name, c.name, name), cls=c)
                    if 'property' in decos:
                        return self.call(VBound(o, f), [], {}, node)
                    return VBound(o, f)
                c, a = ci.find_attr(name)
                if a is not None:
                    return self.eval(a, Frame(None, c.module, None, c.module.name))
            h = self.builtins.get(('attr', o.cls if isinstance(o.cls, str) else None))
            if h is not None:
                r = h(self, o, name, node)
                if r is not None:
                    return r
            h = self.builtins.get('__getattr__')
            if h is not None:
                r = h(self, o, name, node)
                if r is not None:
                    return r
            if o.cls == 'callable' and name in ('__name__', '__qualname__', '__module__', '__doc__'):
                # a callable handed in by the user need not be a plain function: functools.partial objects and
                # instances with __call__ have no __name__ / __qualname__
                if name in ('__name__', '__qualname__') and \
                        self.choose([('a_function', None), ('a_partial_or_callable_instance', None)],
                                    'kind of callable') != 'a_function':
                    self.throw('AttributeError', origin='%s of a callable that is not a function' % name)
                return self.fresh_str(name.strip('_'))
            raise Unsupported('attribute %s of %r' % (name, o), node)
        if isinstance(o, VStub) and name in o.attrs:
            return o.attrs[name]
        if isinstance(o, VClass) and o.info is not None:
            c, m = o.info.find(name)
            if m is not None:
                return VFunc(m, None, c.module, '%s.%s.%s' % (c.module.name, c.name, name), cls=c)
            c, a = o.info.find_attr(name)
            if a is not None:
                return self.eval(a, Frame(None, c.module, None, c.module.name))
        h = self.builtins.get('__getattr__')
        if h is not None:
            r = h(self, o, name, node)
            if r is not None:
                return r
        raise Unsupported('attribute %s of %r' % (name, o), node)

    def e_Subscript(self, e, fr):
        o = self.eval(e.value, fr)
        if isinstance(e.slice, ast.Slice):
            lo = self.eval(e.slice.lower, fr) if e.slice.lower else None
            hi = self.eval(e.slice.upper, fr) if e.slice.upper else None
            if e.slice.step is not None:
                raise Unsupported('slice step', e)
            return self.getslice(o, lo, hi, e)
        k = self.eval(e.slice, fr)
        return self.getitem(o, k, e)

    def getslice(self, o, lo, hi, node):
        if isinstance(o, (VTuple, VList)):
            l = _conc_int(lo) if lo is not None else None
            h = _conc_int(hi) if hi is not None else None
            if (lo is not None and l is None) or (hi is not None and h is None):
                raise Unsupported('symbolic slice bounds', node)
            items = list(o.items)[l:h]
            return VTuple(items) if isinstance(o, VTuple) else VList(items)
        hk = self.builtins.get('__getslice__')
        if hk is not None:
            r = hk(self, o, lo, hi, node)
            if r is not None:
                return r
        raise Unsupported('slice of %r' % (o,), node)

    def getitem(self, o, k, node=None):
        if isinstance(o, (VTuple, VList)):
            i = _conc_int(k)
            if i is None:
                raise Unsupported('symbolic index into concrete tuple/list', node)
            try:
                return o.items[i]
            except IndexError:
                self.throw('IndexError')
        if isinstance(o, Obj) and o.cls == 'SeqList':
            return self._seqlist_item(o, k, node)
        h = self.builtins.get('__getitem__')
        if h is not None:
            r = h(self, o, k, node)
            if r is not None:
                return r
        raise Unsupported('subscript of %r' % (o,), node)

    # ---- a Python list whose content is an abstract sequence (result of `[x for x in <abstract sequence>]`)
    def mk_seqlist(self, seq, wrap):
        return Obj('SeqList', dict(seq=seq, wrap=wrap))

    def _seqlist_item(self, o, k, node, remove=False):
        seq, wrap = o.fields['seq'], o.fields['wrap']
        if not isinstance(k, VInt):
            raise Unsupported('list index %r' % (k,), node)
        n = z3.Length(seq)
        i = z3.If(k.t < 0, n + k.t, k.t)
        if not self.branch(z3.And(i >= 0, i < n)):
            self.throw('IndexError')
        v = wrap(seq[i])
        if remove:
            o.fields['seq'] = z3.Concat(z3.Extract(seq, 0, i), z3.Extract(seq, i + 1, n - i - 1))
        return v

    def _seqlist_attr(self, o, name, node):
        if name == 'pop':
            return VStub('list.pop', lambda E_, a, k: self._seqlist_item(o, a[0] if a else VInt(-1), node, remove=True))
        if name == 'append':
            def append(E_, a, k):
                if not (isinstance(a[0], VVal) and a[0].t.sort() == o.fields['seq'].sort().basis()):
                    raise Unsupported('append of %r to an abstract list' % (a[0],), node)
                o.fields['seq'] = z3.Concat(o.fields['seq'], z3.Unit(a[0].t))
                return NONE
            return VStub('list.append', append)
        raise Unsupported('list.%s on an abstract list' % name, node)

    def e_Lambda(self, e, fr):
        return VFunc(e, fr, fr.module, (fr.qualname or '') + '.<lambda>')

    def e_Await(self, e, fr):
        v = self.eval(e.value, fr)
        return self.await_(v, e, fr)

    def await_(self, v, node, fr=None):
        if isinstance(v, VCoro):
            # awaiting a coroutine of a /repo async function inline: runs within the awaiter
            return self.invoke(v.func, v.args, v.kwargs, node, awaited=True)
        h = self.builtins.get('__await__')
        if h is None:
            raise Unsupported('await', node)
        return h(self, v, node, fr)

    def e_Yield(self, e, fr):
        v = self.eval(e.value, fr) if e.value is not None else NONE
        h = self.hooks.get((fr.qualname, 'yield'))
        if h is None:
            h = self.builtins.get('__yield__')
        if h is None:
            raise Unsupported('yield without a contract hook', e)
        r = h(self, fr, v, e)
        return NONE if r is None else r

    def e_ListComp(self, e, fr):
        return self._comp(e, fr, 'list')

    def e_DictComp(self, e, fr):
        return self._comp(e, fr, 'dict')

    def e_SetComp(self, e, fr):
        return self._comp(e, fr, 'set')

    def e_GeneratorExp(self, e, fr):
        return self._comp(e, fr, 'gen')

    def _comp(self, e, fr, kind):
        if len(e.generators) != 1:
            raise Unsupported('comprehension shape', e)
        g = e.generators[0]
        src = self.eval(g.iter, fr)
        if isinstance(src, Obj):
            h = self.builtins.get('__iterate__')       # a container the contract can enumerate concretely
            r = h(self, src, e) if h is not None else None
            if r is not None:
                src = r
        if g.ifs and not isinstance(src, (VTuple, VList)):
            raise Unsupported('filtered comprehension over %r' % (src,), e)
        if g.is_async and isinstance(src, (VTuple, VList)):
            raise Unsupported('async comprehension over a plain sequence', e)
        if isinstance(src, VSeq) and kind == 'list' and isinstance(g.target, ast.Name) and \
                isinstance(e.elt, ast.Name) and e.elt.id == g.target.id:
            # [x for x in <abstract sequence>] / [x async for x in <contracted async generator>]: a list of it
            h = self.builtins.get('__comprehension__')
            r = h(self, e, fr, kind, src) if h is not None else None
            return r if r is not None else self.mk_seqlist(src.t, src.wrap)
        if isinstance(src, (VTuple, VList)):
            out = []
            for it in src.items:
                f2 = Frame(fr.func, fr.module, fr, fr.qualname)
                self.assign(g.target, it, f2)
                if not all(self.is_true(self.eval(c, f2)) for c in g.ifs):
                    continue
                if kind == 'dict':
                    out.append((self.eval(e.key, f2), self.eval(e.value, f2)))
                else:
                    out.append(self.eval(e.elt, f2))
            if kind in ('list', 'gen'):
                return VList(out)
            if kind == 'dict':
                h = self.builtins.get('__dict_literal__')
                if h:
                    return h(self, out)
            raise Unsupported('comprehension kind %s' % kind, e)
        h = self.builtins.get('__comprehension__')
        if h is None:
            raise Unsupported('comprehension over %r' % (src,), e)
        return h(self, e, fr, kind, src)

    def unpack_iter(self, v, node=None):
        if isinstance(v, (VTuple, VList)):
            return list(v.items)
        h = self.builtins.get('__unpack__')
        if h is not None:
            r = h(self, v, node)
            if r is not None:
                return r
        raise Unsupported('unpacking %r' % (v,), node)

    def e_Starred(self, e, fr):
        raise Unsupported('starred expression here', e)

    def e_Call(self, e, fr):
        if isinstance(e.func, ast.Name) and e.func.id == 'cast' and len(e.args) == 2 and not e.keywords:
            self.report.dropped.add('typing.cast(T, x) read as x')
            return self.eval(e.args[1], fr)       # typing.cast: the type expression is dropped
        f = self.eval(e.func, fr)
        args = []
        for a in e.args:
            if isinstance(a, ast.Starred):
                args.extend(self.unpack_iter(self.eval(a.value, fr), a))
            else:
                args.append(self.eval(a, fr))
        kwargs = {}
        for k in e.keywords:
            if k.arg is None:
                h = self.builtins.get('__unpack_kwargs__')
                if h is None:
                    raise Unsupported('**kwargs call', e)
                kwargs.update(h(self, self.eval(k.value, fr), e))
            else:
                kwargs[k.arg] = self.eval(k.value, fr)
        return self.call(f, args, kwargs, e, fr)

    # ---------------------------------------------------------- calls
    def call(self, f, args, kwargs, node=None, fr=None):
        if isinstance(f, VStub):
            self.used('stub:' + f.name)
            return f.fn(self, args, kwargs)
        if isinstance(f, VBound):
            return self.call(f.func, [f.self] + list(args), kwargs, node, fr)
        if isinstance(f, VPartial):
            kw = dict(f.kwargs)
            kw.update(kwargs)
            return self.call(f.func, list(f.args) + list(args), kw, node, fr)
        if isinstance(f, VFunc):
            if isinstance(f.node, ast.Lambda):
                f2 = Frame(f.node, f.module, f.frame, f.qualname)
                self.bind_params(f.node.args, args, kwargs, f2, f)
                return self.eval(f.node.body, f2)
            if isinstance(f.node, ast.AsyncFunctionDef) and not _is_generator(f.node):
                spec = self.specs.get(f.qualname)
                if spec is not None and getattr(spec, 'on_call', None):
                    return spec.on_call(self, f, args, kwargs, node)
                return VCoro(f, args, kwargs)
            if _is_generator(f.node) and f.qualname not in self.specs and self.cur_func != f.qualname:
                # calling a generator / async generator function runs nothing: a lazy generator object
                return Obj('AsyncGenCall' if isinstance(f.node, ast.AsyncFunctionDef) else 'GenCall',
                           dict(func=f.qualname, args=list(args), kwargs=dict(kwargs), fobj=f))
            return self.invoke(f, args, kwargs, node)
        if isinstance(f, VClass):
            if f.ctor is not None:
                self.used('stub:' + f.name)
                return f.ctor(self, args, kwargs)
            if f.name in EXC_PARENTS or f.term is not None and f.info is None:
                return VExc(f.term, args)
            if f.info is not None:
                return self.instantiate(f, args, kwargs, node)
        h = self.builtins.get('__call__')
        if h is not None:
            r = h(self, f, args, kwargs, node)
            if r is not None:
                return r
        raise Unsupported('call of %r' % (f,), node)

    def instantiate(self, cls, args, kwargs, node=None):
        spec = self.specs.get(cls.name)
        if spec is not None:
            return spec.apply(self, [cls] + list(args), kwargs, node)
        o = Obj(cls.info)
        c, init = cls.info.find('__init__')
        if init is not None:
            f = VFunc(init, None, c.module, '%s.%s.__init__' % (c.module.name, c.name), cls=c)
            self.invoke(f, [o] + list(args), kwargs, node)
        return o

    def invoke(self, f, args, kwargs, node=None, awaited=False):
        """Call of a /repo function: by its contract if it has one, inline if allowed."""
        spec = self.specs.get(f.qualname)
        if spec is not None and self.cur_func != f.qualname:
            self.used('contract:' + f.qualname)
            return spec.apply(self, args, kwargs, node)
        if f.qualname not in self.inline and self.cur_func != f.qualname and \
                not f.qualname.startswith((self.cur_func or '\0') + '.<locals>.') and \
                not any(f.qualname.startswith(px) for px in getattr(self, 'inline_prefixes', ())):
            raise Unsupported('call of %s which has neither contract nor inline permission' % f.qualname, node)
        return self.run_function(f, args, kwargs)

    def _note_function(self, f):
        if f.qualname not in self.report.functions and hasattr(f.node, 'lineno'):
            self.report.functions[f.qualname] = [f.node.lineno, getattr(f.node, 'end_lineno', f.node.lineno)]

    def run_function(self, f, args, kwargs):
        self._note_function(f)
        fr = Frame(f.node, f.module, f.frame, f.qualname)
        fr.self_cls = f.cls
        self.bind_params(f.node.args, args, kwargs, fr, f)
        if _is_generator(f.node):
            h = self.builtins.get('__generator__')
            if h is None:
                raise Unsupported('generator function %s' % f.qualname, f.node)
            return h(self, f, fr)
        self.depth += 1
        if self.depth > 40:
            raise Unsupported('call depth', f.node)
        try:
            self.block(f.node.body, fr)
        except _Return as r:
            return r.value
        finally:
            self.depth -= 1
        return NONE

    def run_body(self, f, args, kwargs):
        """Execute the body of a generator / async-generator function with its `yield`s handled by
        the contract's yield hook (used by proof harnesses; generators are never run lazily)."""
        self._note_function(f)
        fr = Frame(f.node, f.module, f.frame, f.qualname)
        fr.self_cls = f.cls
        fr.is_gen = True
        self.bind_params(f.node.args, args, kwargs, fr, f)
        try:
            self.block(f.node.body, fr)
        except _Return as r:
            return r.value
        return NONE

    def _default(self, expr, dfr, f):
        """a default value is evaluated ONCE, when the function is defined, and shared by all its calls (a mutable
        default is one object): evaluated lazily at the first use on a path and remembered"""
        cache = self.path.__dict__.setdefault('defaults', {})
        key = (id(expr), id(f.frame))
        if key not in cache:
            cache[key] = self.eval(expr, dfr)
        return cache[key]

    def bind_params(self, a, args, kwargs, fr, f):
        args = list(args)
        kwargs = dict(kwargs)
        pos = list(a.posonlyargs) + list(a.args)
        defaults = [None] * (len(pos) - len(a.defaults)) + list(a.defaults)
        dfr = Frame(None, f.module, f.frame, f.qualname)
        for i, p in enumerate(pos):
            if i < len(args):
                fr.env[p.arg] = args[i]
            elif p.arg in kwargs:
                fr.env[p.arg] = kwargs.pop(p.arg)
            elif defaults[i] is not None:
                fr.env[p.arg] = self._default(defaults[i], dfr, f)
            else:
                self.throw('TypeError')
        extra = args[len(pos):]
        if a.vararg is not None and len(extra) == 1 and type(extra[0]).__name__ == 'VStar':
            fr.env[a.vararg.arg] = VSeq(extra[0].seq, VVal)      # abstract positional tuple
        elif a.vararg is not None:
            fr.env[a.vararg.arg] = VTuple(extra)
        elif extra:
            self.throw('TypeError')
        for p, d in zip(a.kwonlyargs, a.kw_defaults):
            if p.arg in kwargs:
                fr.env[p.arg] = kwargs.pop(p.arg)
            elif d is not None:
                fr.env[p.arg] = self._default(d, dfr, f)
            else:
                self.throw('TypeError')
        if a.kwarg is not None:
            h = self.builtins.get('__mk_kwargs__')
            if h is None:
                raise Unsupported('**kwargs parameter', f.node)
            fr.env[a.kwarg.arg] = h(self, kwargs)
        elif kwargs:
            self.throw('TypeError')

    # ---------------------------------------------------------- statements
    def block(self, stmts, fr):
        for st in stmts:
            self.stmt(st, fr)

    def stmt(self, st, fr):
        if self.stmt_hook is not None:
            self.stmt_hook(self, st, fr)
        m = getattr(self, 's_' + type(st).__name__, None)
        if m is None:
            raise Unsupported('statement %s' % type(st).__name__, st)
        return m(st, fr)

    def s_Expr(self, st, fr):
        if isinstance(st.value, ast.Constant):
            return   # docstring
        if _is_logging_call(st.value):
            # the call itself is dropped (a no-op for every property); its ARGUMENTS are still evaluated where the
            # engine can: reading them may raise (a local that is not bound on this path)
            self.dropped.add('logging call')
            self.report.dropped.add('logging calls (no-ops; arguments are evaluated)')
            for a in list(st.value.args) + [k.value for k in st.value.keywords]:
                try:
                    self.eval(a, fr)
                except MaybeUnbound:
                    raise
                except Unsupported:
                    pass
            return
        self.eval(st.value, fr)

    def s_Pass(self, st, fr):
        pass

    def s_Assign(self, st, fr):
        v = self.eval(st.value, fr)
        for t in st.targets:
            self.assign(t, v, fr)

    def s_AnnAssign(self, st, fr):
        if st.value is None:
            return
        v = self.eval(st.value, fr)
        self.assign(st.target, v, fr)

    def s_AugAssign(self, st, fr):
        cur = self.eval(_load(st.target), fr)
        v = self.binop(st.op, self.unopt(cur, st), self.unopt(self.eval(st.value, fr), st), st)
        self.assign(st.target, v, fr)

    def assign(self, t, v, fr):
        if isinstance(t, ast.Name):
            # assignment to a closure variable without nonlocal creates a local: Python semantics
            if t.id in fr.env.get('__nonlocal__', ()):
                f2 = fr.parent
                while f2 is not None and t.id not in f2.env:
                    f2 = f2.parent
                if f2 is None:
                    raise Unsupported('nonlocal %s not found' % t.id, t)
                f2.env[t.id] = v
                return
            fr.env[t.id] = v
        elif isinstance(t, ast.Attribute):
            o = self.eval(t.value, fr)
            self.setattr(o, t.attr, v, t)
        elif isinstance(t, (ast.Tuple, ast.List)):
            items = self.unpack_iter(v, t)
            if len(items) != len(t.elts):
                self.throw('ValueError')
            for tt, vv in zip(t.elts, items):
                self.assign(tt, vv, fr)
        elif isinstance(t, ast.Subscript):
            o = self.eval(t.value, fr)
            k = self.eval(t.slice, fr)
            h = self.builtins.get('__setitem__')
            if h is None:
                raise Unsupported('subscript store', t)
            h(self, o, k, v, t)
        else:
            raise Unsupported('assignment target %s' % type(t).__name__, t)

    def setattr(self, o, name, v, node=None):
        if isinstance(o, Obj):
            h = self.builtins.get('__setattr__')
            if h is not None and h(self, o, name, v, node):
                return
            o.fields[name] = v
            return
        raise Unsupported('attribute store on %r' % (o,), node)

    def s_Delete(self, st, fr):
        for t in st.targets:
            if isinstance(t, ast.Name):
                fr.env.pop(t.id, None)
            elif isinstance(t, ast.Subscript):
                o = self.eval(t.value, fr)
                k = self.eval(t.slice, fr)
                h = self.builtins.get('__delitem__')
                if h is None:
                    raise Unsupported('del subscript', t)
                h(self, o, k, t)
            else:
                raise Unsupported('del target', t)

    def s_Return(self, st, fr):
        raise _Return(self.eval(st.value, fr) if st.value is not None else NONE)

    def s_If(self, st, fr):
        if self.is_true(self.eval(st.test, fr)):
            self.block(st.body, fr)
        else:
            self.block(st.orelse, fr)

    def s_Assert(self, st, fr):
        t = self.truth(self.eval(st.test, fr))
        if not self.branch(t):
            self.throw('AssertionError')

    def s_Raise(self, st, fr):
        if st.exc is None:
            cur = fr.lookup('__current_exc__') if fr.has('__current_exc__') else None
            if cur is None:
                self.throw('RuntimeError')
            raise PyExc(cur)
        v = self.eval(st.exc, fr)
        if isinstance(v, VClass):
            v = VExc(v.term, ())
        if not isinstance(v, VExc):
            h = self.builtins.get('__as_exception__')
            v2 = h(self, v, st) if h else None
            if v2 is None:
                raise Unsupported('raise of %r' % (v,), st)
            v = v2
        if st.cause is not None:
            v.cause = self.eval(st.cause, fr)
        raise PyExc(v)

    def s_Break(self, st, fr):
        raise _Break()

    def s_Continue(self, st, fr):
        raise _Continue()

    def s_Global(self, st, fr):
        raise Unsupported('global statement', st)

    def s_Nonlocal(self, st, fr):
        fr.env.setdefault('__nonlocal__', set()).update(st.names)

    def s_FunctionDef(self, st, fr):
        q = (fr.qualname or fr.module.name) + '.<locals>.' + st.name
        f = VFunc(st, fr, fr.module, q)
        for d in reversed(st.decorator_list):
            dv = self.eval(d, fr)
            f = self.call(dv, [f], {}, d, fr)
        fr.env[st.name] = f

    s_AsyncFunctionDef = s_FunctionDef

    def s_Import(self, st, fr):
        raise Unsupported('import inside function', st)

    s_ImportFrom = s_Import

    def s_Try(self, st, fr):
        try:
            try:
                self.block(st.body, fr)
            except PyExc as pe:
                exc = pe.exc
                for h in st.handlers:
                    if h.type is None:
                        m = True
                    else:
                        m = self.exc_isinstance(exc, self.eval(h.type, fr))
                    if self.branch(m):
                        if h.name:
                            fr.env[h.name] = exc
                        saved = fr.env.get('__current_exc__')
                        fr.env['__current_exc__'] = exc
                        try:
                            self.block(h.body, fr)
                        finally:
                            if saved is None:
                                fr.env.pop('__current_exc__', None)
                            else:
                                fr.env['__current_exc__'] = saved
                            if h.name:
                                fr.env.pop(h.name, None)
                        break
                else:
                    raise
            else:
                self.block(st.orelse, fr)
        except (PyExc, _Return, _Break, _Continue):
            # finally runs, then the pending outcome continues unless finally overrides it
            self.block(st.finalbody, fr)
            raise
        else:
            self.block(st.finalbody, fr)

    def s_With(self, st, fr):
        self._with(st, fr, list(st.items), False)

    def s_AsyncWith(self, st, fr):
        self._with(st, fr, list(st.items), True)

    def _with(self, st, fr, items, is_async):
        if not items:
            return self.block(st.body, fr)
        it = items[0]
        cm = self.eval(it.context_expr, fr)
        if isinstance(cm, Obj) and cm.cls == 'Suppress' and not is_async:
            # contextlib.suppress(*classes): swallows exactly the exceptions that are instances of one of them
            def enter():
                return NONE

            def exit_(exc):
                return exc is not None and any(self.branch(self.exc_isinstance(exc, c)) for c in cm.fields['classes'])
        else:
            h = self.builtins.get('__with__')
            if h is None:
                raise Unsupported('with', st)
            enter, exit_ = h(self, cm, is_async, st)
        v = enter()
        if it.optional_vars is not None:
            self.assign(it.optional_vars, v, fr)
        try:
            self._with(st, fr, items[1:], is_async)
        except PyExc as pe:
            if exit_(pe.exc):
                return          # exception suppressed
            raise
        except (_Return, _Break, _Continue):
            exit_(None)
            raise
        else:
            exit_(None)

    def s_While(self, st, fr):
        self._loop(st, fr, 'while')

    def s_For(self, st, fr):
        self._loop(st, fr, 'for')

    def s_AsyncFor(self, st, fr):
        self._loop(st, fr, 'asyncfor')

    def _loop(self, st, fr, kind):
        n = self._loop_ordinal(fr, st)
        if st.orelse:
            raise Unsupported('loop else', st)
        if kind in ('for', 'asyncfor'):
            src = self.eval(st.iter, fr)
            if kind == 'for' and isinstance(src, Obj):
                h = self.builtins.get('__iterate__')
                r = h(self, src, st) if h is not None else None
                if r is not None:
                    src = r
            if kind == 'for' and isinstance(src, (VTuple, VList)):
                # iteration over a concrete spine: exact unrolling, complete
                for it in list(src.items):
                    self.assign(st.target, it, fr)
                    try:
                        self.block(st.body, fr)
                    except _Break:
                        break
                    except _Continue:
                        continue
                return
        else:
            src = None
        hook = self.hooks.get((fr.qualname, 'loop', n))
        if hook is None and getattr(self, 'unroll_concrete', False) and kind == 'while':
            # self-test only: a loop whose test is concretely decidable at every iteration is simply run
            for _ in range(10000):
                t = self.truth(self.eval(st.test, fr))
                if not isinstance(t, bool):
                    t = VBool(t).concrete()
                if t is None:
                    raise Unsupported('symbolic loop test in concrete mode', st)
                if not t:
                    return
                try:
                    self.block(st.body, fr)
                except _Break:
                    return
                except _Continue:
                    continue
            raise Unsupported('concrete loop did not terminate', st)
        if hook is None:
            raise Unsupported('loop #%d of %s has no invariant' % (n, fr.qualname), st)
        for name in _stored_names([st]):
            if not fr.has(name):
                fr.loop_assigned.add(name)
        hook(self, st, fr, kind, src)

    def _loop_ordinal(self, fr, st):
        """Static ordinal of a loop within its function: source order, nested functions excluded."""
        fn = fr.func
        if fn is None or isinstance(fn, ast.Lambda):
            return 0
        cache = self.__dict__.setdefault('_loop_ord_cache', {})
        lst = cache.get(id(fn))
        if lst is None:
            lst = []

            def walk(nodes):
                for n_ in nodes:
                    if isinstance(n_, (ast.FunctionDef, ast.AsyncFunctionDef, ast.Lambda, ast.ClassDef)):
                        continue
                    if isinstance(n_, (ast.While, ast.For, ast.AsyncFor)):
                        lst.append(n_)
                    walk(list(ast.iter_child_nodes(n_)))
            walk(fn.body)
            lst.sort(key=lambda n_: (n_.lineno, n_.col_offset))
            cache[id(fn)] = lst
        for i, n_ in enumerate(lst):
            if n_ is st:
                return i
        return len(lst)

    # helper used by loop hooks -------------------------------------------------
    def cut_loop(self, st, fr, inv, havoc, test=None, bind=None, label='', on_exit=None, step=None):
        """Generic invariant cut.
        inv(tag) -> list[(name, formula)] evaluated on the CURRENT state
        havoc()  -> replaces everything the body may modify by fresh values
        test()   -> python bool (via branch) 'loop continues'; None for `while True`
        bind()   -> binds the loop target for one more iteration (for-loops)
        """
        q = fr.qualname
        for name, f in inv('entry'):
            self.oblige('%s/invariant(%s).%s established' % (q, label, name), f, site=st.lineno)
        havoc()
        for name, f in inv('assume'):
            self.assume(f)
        cont = True if test is None else test()
        if cont:
            if bind is not None:
                bind()
            try:
                self.block(st.body, fr)
            except _Break:
                if on_exit:
                    on_exit('break')
                return
            except _Continue:
                pass
            if step is not None:
                step()
            for name, f in inv('preserve'):
                self.oblige('%s/invariant(%s).%s preserved' % (q, label, name), f, site=st.lineno)
            raise PathEnd()
        if on_exit:
            on_exit('exit')


# ------------------------------------------------------------------ small helpers
def _stored_names(nodes):
    """names bound by these statements in the enclosing function's scope (nested scopes excluded)"""
    out = set()

    def walk(n):
        if isinstance(n, (ast.FunctionDef, ast.AsyncFunctionDef, ast.ClassDef)):
            out.add(n.name)
            return
        if isinstance(n, ast.Lambda):
            return
        if isinstance(n, (ast.ListComp, ast.SetComp, ast.DictComp, ast.GeneratorExp)):
            for x in ast.walk(n):
                if isinstance(x, ast.NamedExpr):
                    out.add(x.target.id)
            return
        if isinstance(n, ast.Name) and isinstance(n.ctx, (ast.Store, ast.Del)):
            out.add(n.id)
        elif isinstance(n, (ast.Import, ast.ImportFrom)):
            for a in n.names:
                out.add((a.asname or a.name).split('.')[0])
        elif isinstance(n, ast.ExceptHandler) and n.name:
            out.add(n.name)
        for c in ast.iter_child_nodes(n):
            walk(c)
    for n in nodes:
        walk(n)
    return out


_LOCALS = {}


def _local_names(func):
    """the names the compiler treats as locals of this function (parameters, anything stored; not global/nonlocal)"""
    r = _LOCALS.get(id(func))
    if r is None or r[0] is not func:
        if not isinstance(func, (ast.FunctionDef, ast.AsyncFunctionDef)):
            names = set()
        else:
            a = func.args
            names = {x.arg for x in a.posonlyargs + a.args + a.kwonlyargs}
            for x in (a.vararg, a.kwarg):
                if x is not None:
                    names.add(x.arg)
            names |= _stored_names(func.body)
            for n in ast.walk(func):
                if isinstance(n, (ast.Global, ast.Nonlocal)):
                    names -= set(n.names)
        r = (func, names)
        _LOCALS[id(func)] = r
    return r[1]


def _as_z3bool(x):
    return z3.BoolVal(x) if isinstance(x, bool) else x


def _mkbool(r):
    return VBool(r)


def _neg(r):
    return (not r) if isinstance(r, bool) else z3.Not(r)


def _num(v):
    if isinstance(v, VBool):
        return z3.If(v.t, z3.IntVal(1), z3.IntVal(0))
    return v.t


def _conc_int(v):
    if isinstance(v, VInt):
        return v.concrete()
    if isinstance(v, VBool):
        c = v.concrete()
        return None if c is None else int(c)
    return None


def _known_cls(term):
    s = str(term)
    if s.startswith('cls_') and s[4:] in EXC_PARENTS:
        return s[4:]
    return None


def _site(node):
    if node is None:
        return '?'
    try:
        s = ast.unparse(node)
    except Exception:
        s = type(node).__name__
    s = ' '.join(s.split())
    return s if len(s) <= 60 else s[:57] + '...'


def _load(t):
    import copy
    t2 = copy.deepcopy(t)
    for n in ast.walk(t2):
        if hasattr(n, 'ctx'):
            n.ctx = ast.Load()
    return t2


def _is_generator(node):
    for n in _walk_own(node):
        if isinstance(n, (ast.Yield, ast.YieldFrom)):
            return True
    return False


def _walk_own(node):
    """Walk a function body without entering nested function definitions / lambdas."""
    todo = list(node.body) if hasattr(node, 'body') and isinstance(node.body, list) else [node.body]
    while todo:
        n = todo.pop()
        yield n
        for c in ast.iter_child_nodes(n):
            if isinstance(c, (ast.FunctionDef, ast.AsyncFunctionDef, ast.Lambda, ast.ClassDef)):
                continue
            todo.append(c)


_LOGGER_NAMES = {'logger', '_logger', 'logging'}


def _is_logging_call(e):
    """logger.debug(...), _logger.exception(...), logging.exception(...): dropped (DESIGN section 3)."""
    if isinstance(e, ast.Call) and isinstance(e.func, ast.Attribute) and isinstance(e.func.value, ast.Name):
        return e.func.value.id in _LOGGER_NAMES and e.func.attr in (
            'debug', 'info', 'warning', 'error', 'exception', 'critical', 'log')
    return False
