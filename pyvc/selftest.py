"""Engine self-test: (1) concrete cross-execution against CPython; (2) harmless variants of the verified
functions must not raise a VIOLATION; (3) known-broken variants must fail a named obligation."""
import importlib.util
import json
import os
import shutil
import subprocess
import sys

import z3

from .engine import Engine, FunctionReport, ModuleInfo, PyExc, Unsupported
from .values import *  # noqa: F401,F403
from . import stubs

ROOT = os.path.dirname(os.path.dirname(os.path.abspath(__file__)))


def to_v(x):
    if isinstance(x, bool):
        return VBool(x)
    if isinstance(x, int):
        return VInt(x)
    if x is None:
        return NONE
    if isinstance(x, tuple):
        return VTuple([to_v(i) for i in x])
    raise ValueError(x)


def from_v(v):
    if isinstance(v, VBool):
        return v.concrete()
    if isinstance(v, VInt):
        return v.concrete()
    if isinstance(v, VNone):
        return None
    if isinstance(v, VTuple):
        return tuple(from_v(i) for i in v.items)
    raise ValueError('symbolic or unsupported result %r' % (v,))


def cross_execution():
    path = os.path.join(ROOT, 'selftest', 'samples.py')
    spec = importlib.util.spec_from_file_location('samples', path)
    mod = importlib.util.module_from_spec(spec)
    spec.loader.exec_module(mod)
    mi = ModuleInfo('samples', path)
    bad, n = [], 0
    for fname, cases in mod.CASES.items():
        for args in cases:
            n += 1
            try:
                want = ('ok', getattr(mod, fname)(*args))
            except Exception as e:
                want = ('exc', type(e).__name__)
            E = Engine({'samples': mi})
            E.report = FunctionReport(fname)
            stubs.install_all(E)
            E.inline.add('samples.' + fname)
            E.cur_func = 'samples.' + fname
            E.unroll_concrete = True
            got = {}

            def body():
                f = VFunc(mi.functions[fname], None, mi, 'samples.' + fname)
                try:
                    got['r'] = ('ok', from_v(E.run_function(f, [to_v(a) for a in args], {})))
                except PyExc as pe:
                    from .engine import _known_cls
                    got['r'] = ('exc', _known_cls(pe.exc.cls))
            E.run_paths(body)
            if E.report.unsupported or got.get('r') != want or E.report.paths != 1:
                bad.append((fname, args, want, got.get('r'), E.report.unsupported, E.report.paths))
    return n, bad


def main():
    n, bad = cross_execution()
    print('cross-execution against CPython: %d cases, %d disagreements' % (n, len(bad)))
    for b in bad[:10]:
        print('  DISAGREE', b)
    return 0 if not bad else 3


# ------------------------------------------------------------------ harmless variants (false-alarm guard)
HARMLESS = [
    ('filelock: locals renamed, independent statements reordered, extra logging', 'aiuti/filelock.py', [
        ("        lid = id(self)\n        fn = self._lock_file\n\n        if not self._thread_lock.acquire(blocking, timeout):",
         "        fn = self._lock_file\n        lid = id(self)\n        _logger.debug('acquire %s', fn)\n\n        if not self._thread_lock.acquire(blocking, timeout):"),
        ("        fd, self._lock_file_fd = self._lock_file_fd, None\n        assert isinstance(fd, int)",
         "        descriptor, self._lock_file_fd = self._lock_file_fd, None\n        assert isinstance(descriptor, int)\n        fd = descriptor"),
    ], ['C12', 'C02', 'C13']),
    ('cache: locals renamed, logging added', 'aiuti/asyncio.py', [
        ("                    do_caching = True\n                else:\n                    do_caching = False  # Need to wait for other loop\n\n            if do_caching:",
         "                    is_owner = True\n                else:\n                    is_owner = False  # Need to wait for other loop\n\n            logger.debug('owner: %s', is_owner)\n            if is_owner:"),
    ], ['C01', 'C05', 'C06', 'C14']),
    ('batcher: locals renamed in _process_batch', 'aiuti/asyncio.py', [
        ("        args = [t[:2] for t in tasks]\n        futs = {k: f for k, _, f in tasks}",
         "        pairs = [t[:2] for t in tasks]\n        futs = {k: f for k, _, f in tasks}\n        args = pairs"),
    ], ['C04', 'C09', 'C10']),
    ('parsing: locals renamed', 'aiuti/parsing.py', [
        ("                k, v = pair.split(sep, 1)", "                key, value = pair.split(sep, 1)"),
        ("            return parse_tuple(k, v)", "            return parse_tuple(key, value)"),
    ], ['C19']),
    ('itertools: locals renamed, tee calls reordered', 'aiuti/itertools.py', [
        ("    i1, i2 = tee(iterable)\n    c1, c2 = tee(condition)\n    return compress(i1, c1), compress(i2, map(op.not_, c2))",
         "    conds_a, conds_b = tee(condition)\n    items_a, items_b = tee(iterable)\n    return compress(items_a, conds_a), compress(items_b, map(op.not_, conds_b))"),
    ], ['C18']),
    ('itertools: negation written as a generator expression', 'aiuti/itertools.py', [
        ("compress(i2, map(op.not_, c2))", "compress(i2, (not c for c in c2))"),
    ], ['C18']),
    ('raise_first_exc: stream collected first, first element raised', 'aiuti/asyncio.py', [
        ("    async for exc in gather_excs(aws, only):\n        raise exc",
         "    excs = [exc async for exc in gather_excs(aws, only)]\n    if excs:\n        raise excs[0]"),
    ], ['C20']),
    ('cache: own-marker test written with `in` and a subscript', 'aiuti/asyncio.py', [
        ("if events.get(key, (None, None))[1] is event:", "if key in events and events[key][1] is event:"),
    ], ['C01', 'C06']),
    ('buffer: outcome of the call kept in a local first', 'aiuti/asyncio.py', [
        ("                if await self._run_func(inputs):\n                    break",
         "                delivered = await self._run_func(inputs)\n                if delivered:\n                    break"),
    ], ['C03', 'C08']),
    ('filelock: a failed attempt logs inside contextlib.suppress', 'aiuti/filelock.py', [
        ("            _cleanup_thread_lock()\n            raise\n\n        return True",
         "            with contextlib.suppress(ValueError):\n                _cleanup_thread_lock()\n            raise\n\n        return True"),
    ], ['C12', 'C13']),
    ('bridges: hand-over queue with an explicit maxsize=0', 'aiuti/asyncio.py', [
        ("    q: 'queue.Queue[T]' = queue.Queue()", "    q: 'queue.Queue[T]' = queue.Queue(maxsize=0)"),
    ], ['C16']),
    ('batcher: done-callback written with a default argument', 'aiuti/asyncio.py', [
        ("fut.add_done_callback(lambda _: self._forget(key))", "fut.add_done_callback(lambda _f, k=key: self._forget(k))"),
    ], ['C04', 'C09', 'C11']),
    ('filelock: __exit__ passes force=False explicitly', 'aiuti/filelock.py', [
        ("    def __exit__(self, *_exc: Any) -> None:\n        self.release()", "    def __exit__(self, *_exc: Any) -> None:\n        self.release(force=False)"),
    ], ['C02', 'C12']),
    ('run_aw_threadsafe: the coroutine test written the other way round', 'aiuti/asyncio.py', [
        ("    coro = aw if aio.iscoroutine(aw) else _aw_to_coro(aw)", "    coro = _aw_to_coro(aw) if not aio.iscoroutine(aw) else aw"),
    ], ['C17']),
    ('exhaust: maxlen passed positionally', 'aiuti/itertools.py', [
        ("    deque(iterable, maxlen=0)", "    deque(iterable, 0)"),
    ], ['C18']),
    ('cache: cancellation test of the waiter kept in locals', 'aiuti/asyncio.py', [
        ("                if not waiter.cancelled() or _being_cancelled():\n                    raise",
         "                foreign = waiter.cancelled()\n                mine = _being_cancelled()\n                if mine or not foreign:\n                    raise"),
    ], ['C05', 'C06']),
    ('cache: computing caller re-reads its entry, falling back to the value it computed', 'aiuti/asyncio.py', [
        ("                            del events[key]\n                return result",
         "                            del events[key]\n                try:\n                    return _cache[key]\n                except KeyError:\n                    return result"),
    ], ['C01', 'C06', 'C14']),
    ('filelock: the busy lock handled as BlockingIOError first, everything closed', 'aiuti/filelock.py', [
        ("        except (IOError, OSError):\n            os.close(fd)",
         "        except BlockingIOError:\n            os.close(fd)\n        except OSError:\n            os.close(fd)"),
    ], ['C12', 'C13', 'C02']),
    ('gather_excs: nothing to gather for an empty sequence', 'aiuti/asyncio.py', [
        ("    for res in await aio.gather(*aws, return_exceptions=True):",
         "    if isinstance(aws, (list, tuple)) and not aws:\n        return\n    for res in await aio.gather(*aws, return_exceptions=True):"),
    ], ['C20']),
    ('buffer: _run_func with the failure handling written the other way round', 'aiuti/asyncio.py', [
        ("            if _being_cancelled():  # Never swallow our cancellation\n                raise\n            logging.exception(\"Failed to run %s, retrying\", self.func)\n            return False",
         "            if not _being_cancelled():\n                logging.exception(\"Failed to run %s, retrying\", self.func)\n                return False\n            raise"),
    ], ['C03', 'C07', 'C08']),
    ('batcher: _forget with its branches swapped', 'aiuti/asyncio.py', [
        ("        if self.retention_timeout > 0:\n            self._loop.call_later(\n                self.retention_timeout,\n                self._retention_cache.pop,\n                key,\n            )\n        else:\n            del self._retention_cache[key]",
         "        if not self.retention_timeout > 0:\n            del self._retention_cache[key]\n        else:\n            self._loop.call_later(\n                self.retention_timeout,\n                self._retention_cache.pop,\n                key,\n            )"),
    ], ['C11', 'C09', 'C15']),
    ('gather_excs: loop variable renamed', 'aiuti/asyncio.py', [
        ("    for res in await aio.gather(*aws, return_exceptions=True):\n        if isinstance(res, only):\n            yield res",
         "    outcomes = await aio.gather(*aws, return_exceptions=True)\n    for outcome in outcomes:\n        if isinstance(outcome, only):\n            yield outcome"),
    ], ['C20']),
    ('buffer: local renamed in _run_func, comment changes', 'aiuti/asyncio.py', [
        ("        except BaseException as e:  # noqa\n            if _being_cancelled():  # Never swallow our cancellation\n                raise\n            logging.exception(\"Failed to run %s, retrying\", self.func)",
         "        except BaseException as err:  # noqa\n            if _being_cancelled():\n                raise\n            logging.exception(\"Failed to run %s (%r), retrying\", self.func, err)"),
    ], ['C03', 'C07', 'C08']),
    ('filelock: acquire_ctx forwards its arguments by keyword', 'aiuti/filelock.py', [
        ("        if not self.acquire(blocking, timeout, poll_interval):\n            raise TimeoutError(\"Failed to acquire file lock:\", self._lock_file)",
         "        got = self.acquire(blocking=blocking, timeout=timeout, poll_interval=poll_interval)\n        if not got:\n            raise TimeoutError(\"Failed to acquire file lock:\", self._lock_file)"),
    ], ['C12', 'C13']),
    ('gather_excs: filter written with a one-element tuple', 'aiuti/asyncio.py', [
        ("        if isinstance(res, only):", "        if isinstance(res, (only,)):"),
    ], ['C20']),
    ('batcher: failure handler logs how many futures are left', 'aiuti/asyncio.py', [
        ("            logger.debug(\"Exception while processing batch\", exc_info=True)",
         "            logger.debug(\"Exception while processing batch of %d (%d unanswered)\", len(args), len(futs), exc_info=True)"),
    ], ['C04', 'C10']),
    ('buffer: retry log names the type of the callable', 'aiuti/asyncio.py', [
        ("            logging.exception(\"Failed to run %s, retrying\", self.func)",
         "            logging.exception(\"Failed to run %s (%s), retrying\", self.func, type(self.func))"),
    ], ['C03', 'C07']),
    ('exhaust: drained through a named deque', 'aiuti/itertools.py', [
        ("    deque(iterable, maxlen=0)", "    sink = deque(iterable, maxlen=0)\n    del sink"),
    ], ['C18']),
    ('parsing: string test written as exact type or instance', 'aiuti/parsing.py', [
        ("        if isinstance(pair, str):\n            try:\n                k, v = pair.split(sep, 1)",
         "        if type(pair) is str or isinstance(pair, str):\n            try:\n                k, v = pair.split(sep, 1)"),
    ], ['C19']),
    ('batcher: failure handler logs whether all slots are busy', 'aiuti/asyncio.py', [
        ("            logger.debug(\"Exception while processing batch\", exc_info=True)",
         "            logger.debug(\"Exception while processing batch (all slots busy: %s)\", self._semaphore.locked(), exc_info=True)"),
    ], ['C04', 'C10', 'C15']),
    ('batcher: drain logs when the queue is empty afterwards', 'aiuti/asyncio.py', [
        ("            except AioQueueEmpty:\n                pass\n            else:\n                continue",
         "            except AioQueueEmpty:\n                pass\n            else:\n                if q.empty():\n                    logger.debug('queue drained')\n                continue"),
    ], ['C10']),
    ('filelock: path converted with os.fspath', 'aiuti/filelock.py', [
        ("        self._lock_file: PathLike = lock_file", "        self._lock_file: PathLike = os.fspath(lock_file)"),
    ], ['C02', 'C12']),
    ('batcher: batch_timeout read into a local right before the timed wait', 'aiuti/asyncio.py', [
        ("                tasks.append(await aio.wait_for(q.get(), self.batch_timeout))",
         "                limit = self.batch_timeout\n                tasks.append(await aio.wait_for(q.get(), limit))"),
    ], ['C10', 'C15']),
    ('buffer: completion flag set through a local alias', 'aiuti/asyncio.py', [
        ("            self.event.set()\n            return True", "            done = self.event\n            done.set()\n            return True"),
    ], ['C07', 'C03']),
    ('bridges: hand-over through queue.SimpleQueue', 'aiuti/asyncio.py', [
        ("    q: 'queue.Queue[T]' = queue.Queue()", "    q: 'queue.SimpleQueue[T]' = queue.SimpleQueue()"),
    ], ['C16']),
]


def harmless_variants():
    bad = []
    for title, rel, edits, props in HARMLESS:
        scratch = '/tmp/pyvc_harmless'
        shutil.rmtree(scratch, ignore_errors=True)
        os.makedirs(scratch)
        shutil.copytree('/repo/aiuti', scratch + '/aiuti')
        p = os.path.join(scratch, rel)
        s = open(p).read()
        ok = True
        for old, new in edits:
            if old not in s:
                ok = False
                break
            s = s.replace(old, new, 1)
        if not ok:
            print('  SKIP (anchor text changed): %s' % title)
            shutil.rmtree(scratch, ignore_errors=True)
            continue
        open(p, 'w').write(s)
        r = subprocess.run(['/venv/bin/python', '-c', 'import aiuti.asyncio, aiuti.filelock, aiuti.parsing, aiuti.itertools'],
                           env=dict(os.environ, PYTHONPATH=scratch), capture_output=True, text=True)
        if r.returncode:
            print('  SKIP (variant does not import): %s' % title)
            continue
        for prop in props:
            env = dict(os.environ, PYVC_REPO=scratch, PYVC_EVIDENCE_DIR=scratch + '/ev', PYVC_REPLAY_DIR=scratch + '/rp')
            pr = subprocess.run([sys.executable, '-m', 'pyvc', 'check', prop, '--tier', 'quick'], cwd=ROOT, env=env,
                                capture_output=True, text=True)
            tail = pr.stdout.strip().splitlines()[-1] if pr.stdout.strip() else ''
            print('  %-70s %s exit=%d %s' % (title[:70], prop, pr.returncode, tail[-70:]))
            if pr.returncode == 1 or 'VIOLATION' in pr.stdout:
                bad.append((title, prop, pr.stdout[-600:]))
        shutil.rmtree(scratch, ignore_errors=True)
    return bad


def main_variants():
    bad = harmless_variants()
    print('harmless variants: %d false alarms' % len(bad))
    for b in bad:
        print('  FALSE ALARM', b)
    return 0 if not bad else 3
