"""
Stub contracts (ASSUMED, listed in every evidence file) for the library operations the
verified functions call.  Each stub is a function fn(E, args, kwargs) -> V that may
oblige preconditions, fork on outcomes with E.choose, update world/ghost state in E.w
and raise PyExc for Python exceptions.  Facts are those of CPython 3.12.1 (/venv).
"""
import fcntl as _real_fcntl
import os as _real_os

import z3

from .values import *  # noqa: F401,F403
from .engine import PyExc, PathEnd, Unsupported, Frame

ThreadS = usort('Thread')


def stub(name, attrs=None):
    def deco(fn):
        return VStub(name, fn, attrs)
    return deco


def _real(v):
    if isinstance(v, VInt):
        return z3.ToReal(v.t)
    if isinstance(v, VReal):
        return v.t
    if isinstance(v, VBool):
        return z3.If(v.t, z3.RealVal(1), z3.RealVal(0))
    raise Unsupported('number expected, got %r' % (v,))


def wget(E, key, mk):
    if key not in E.w:
        E.w[key] = mk()
    return E.w[key]


# ------------------------------------------------------------------ ghost clock
def now(E):
    return wget(E, 'now', lambda: E.fresh('now', z3.RealSort()))


def throw_oserror(E, origin):
    """an OSError of SOME subclass (BlockingIOError for a busy flock, PermissionError, ENOLCK as plain OSError,
    ...): code that only handles particular subclasses lets the others through"""
    c = E.fresh('oserror_class', ClsS)
    E.need_hierarchy()
    E.assume(sub(c, EXC['OSError'].term))
    raise PyExc(VExc(c, (), info={'origin': origin}))


def advance(E, lo=None, hi=None, exact=None):
    """Blocking stubs move the ghost clock; computation takes no ghost time."""
    t0 = now(E)
    if exact is not None:
        E.w['now'] = t0 + exact
        return
    t1 = E.fresh('now', z3.RealSort())
    E.assume(t1 >= t0 + (lo if lo is not None else 0))
    if hi is not None:
        E.assume(t1 <= t0 + hi)
    E.w['now'] = t1


# ------------------------------------------------------------------ builtins
def install_builtins(E):
    B = E.builtins
    for n in EXC_PARENTS:
        B[n] = EXC[n]
    B['IOError'] = EXC['OSError']
    B['EnvironmentError'] = EXC['OSError']

    @stub('id')
    def _id(E, args, kw):
        o = args[0]
        key = ('id', getattr(o, 'oid', None) or repr(o))
        return VInt(wget(E, key, lambda: E.fresh('id', z3.IntSort())))
    B['id'] = _id

    @stub('max')
    def _max(E, args, kw):
        if len(args) == 2 and all(isinstance(a, (VInt, VBool)) for a in args):
            x, y = [a.t if isinstance(a, VInt) else z3.If(a.t, 1, 0) for a in args]
            return VInt(z3.If(x >= y, x, y))
        if len(args) == 2 and all(isinstance(a, (VInt, VReal, VBool)) for a in args):
            x, y = _real(args[0]), _real(args[1])
            return VReal(z3.If(x >= y, x, y))
        raise Unsupported('max%r' % (tuple(args),))
    B['max'] = _max

    def _minmax(name):
        def fn(E, args, kw):
            args = [E.unopt(a) if isinstance(a, VOpt) else a for a in args]
            if len(args) == 2 and all(isinstance(a, (VInt, VBool)) for a in args):
                x, y = [a.t if isinstance(a, VInt) else z3.If(a.t, 1, 0) for a in args]
                return VInt(z3.If((x <= y) if name == 'min' else (x >= y), x, y))
            if len(args) == 2 and all(isinstance(a, (VInt, VBool, VReal)) for a in args):
                x, y = [_real(a) for a in args]
                return VReal(z3.If((x <= y) if name == 'min' else (x >= y), x, y))
            raise Unsupported('%s%r' % (name, tuple(args)))
        return fn
    B['min'] = VStub('min', _minmax('min'))
    B['max'] = VStub('max', _minmax('max'))

    @stub('len')
    def _len(E, args, kw):
        o = args[0]
        if isinstance(o, (VTuple, VList)):
            return VInt(len(o.items))
        if isinstance(o, VSeq):
            return VInt(z3.Length(o.t))
        if isinstance(o, Obj) and o.cls == 'SeqList':
            return VInt(z3.Length(o.fields['seq']))
        if isinstance(o, VStr):
            return VInt(z3.Length(o.t))
        h = E.builtins.get('__len__')
        if h is not None:
            r = h(E, o)
            if r is not None:
                return r
        raise Unsupported('len(%r)' % (o,))
    B['len'] = _len

    @stub('isinstance')
    def _isinstance(E, args, kw):
        o, c = args
        if isinstance(o, VExc):
            return VBool(E.exc_isinstance(o, c))
        if isinstance(c, VTuple):
            # isinstance(x, (A, B, ...)): an instance of any of them
            ts = [E.truth(_isinstance.fn(E, [o, ci], kw)) for ci in c.items]
            if any(t is True for t in ts):
                return VBool(True)
            ts = [t for t in ts if t is not False]
            return VBool(z3.Or(*ts)) if ts else VBool(False)
        h = E.builtins.get('__isinstance__')
        if h is not None:
            r = h(E, o, c)
            if r is not None:
                return r
        name = getattr(c, 'name', None)
        if name == 'int':
            if isinstance(o, (VInt, VBool)):
                return VBool(True)
            if isinstance(o, VOpt) and isinstance(o.val, VInt):
                return VBool(z3.Not(o.isnone))
            if isinstance(o, (VNone, VStr, VReal, VTuple)):
                return VBool(False)
        if name == 'str':
            if isinstance(o, VStr):
                return VBool(True)
            if isinstance(o, (VInt, VReal, VBool, VNone, VTuple, VList)):
                return VBool(False)
        raise Unsupported('isinstance(%r, %r)' % (o, c))
    B['isinstance'] = _isinstance

    B['int'] = VClass('int', ctor=lambda E, a, k: _unsupp('int()'))
    B['str'] = VClass('str', ctor=lambda E, a, k: _str_ctor(E, a, k))
    B['bool'] = VClass('bool', ctor=lambda E, a, k: VBool(E.truth(a[0])) if a else VBool(False))
    B['object'] = VClass('object', ctor=lambda E, a, k: Obj('object'))
    B['tuple'] = VClass('tuple', ctor=lambda E, a, k: VTuple(E.unpack_iter(a[0])) if a else VTuple(()))
    B['list'] = VClass('list', ctor=lambda E, a, k: VList(E.unpack_iter(a[0])) if a else VList(()))
    B['range'] = VClass('range', ctor=lambda E, a, k: _range(E, a))
    B['True'] = VBool(True)
    B['False'] = VBool(False)
    B['None'] = NONE
    B['__name__'] = VStr('module')

    @stub('callable')
    def _callable(E, args, kw):
        o = args[0]
        if isinstance(o, (VFunc, VBound, VStub, VClass, VPartial)):
            return VBool(True)
        h = E.builtins.get('__callable__')
        if h is not None:
            r = h(E, o)
            if r is not None:
                return r
        if isinstance(o, (VInt, VStr, VReal, VBool, VNone, VTuple, VList, VSeq)):
            return VBool(False)
        raise Unsupported('callable(%r)' % (o,))
    B['callable'] = _callable

    @stub('getattr')
    def _getattr(E, args, kw):
        o, n = args[0], args[1]
        name = n.concrete() if isinstance(n, VStr) else None
        if name is None:
            raise Unsupported('getattr with symbolic name')
        if isinstance(o, VNone) and len(args) > 2 and not name.startswith('__'):
            return args[2]          # getattr(None, name, default): the default
        try:
            return E.getattr(o, name)
        except Unsupported:
            if len(args) > 2:
                h = E.builtins.get('__getattr_default__')
                if h is not None:
                    r = h(E, o, name, args[2])
                    if r is not None:
                        return r
            raise
    B['getattr'] = _getattr

    @stub('setattr')
    def _setattr(E, args, kw):
        o, n, v = args
        name = n.concrete() if isinstance(n, VStr) else None
        if name is None:
            raise Unsupported('setattr with symbolic name')
        if isinstance(o, VFunc):
            return NONE   # metadata copying on a function object: dropped (DESIGN section 3)
        E.setattr(o, name, v)
        return NONE
    B['setattr'] = _setattr

    @stub('cast')
    def _cast(E, args, kw):
        return args[1]
    B[('import', 'typing:cast')] = _cast
    B['cast'] = _cast

    # typing names are only used in annotations (dropped) and cast()
    for n in ('Any', 'Optional', 'Union', 'TypeVar', 'ClassVar', 'Callable', 'Awaitable', 'Iterable',
              'Iterator', 'AsyncIterable', 'Coroutine', 'Dict', 'MutableMapping', 'Generic', 'List',
              'Protocol', 'Set', 'Tuple', 'Type', 'overload', 'Mapping', 'Generator', 'AsyncIterator', 'Sequence'):
        B[('import', 'typing:' + n)] = VClass('typing.' + n)
    for n in ('T', 'Yields', 'AYields'):
        B[('import', '.typing:' + n)] = VClass('aiuti.typing.' + n)


def _range(E, a):
    if len(a) != 1:
        raise Unsupported('range with %d arguments' % len(a))
    n = a[0]
    c = n.concrete() if isinstance(n, VInt) else None
    if c is not None and c <= 64:
        return VList([VInt(i) for i in range(c)])
    return Obj('range', dict(n=n))


def _unsupp(what):
    raise Unsupported(what)


def _str_ctor(E, a, k):
    if not a:
        return VStr('')
    o = a[0]
    if isinstance(o, VStr):
        return o
    h = E.builtins.get('__str__')
    if h is not None:
        r = h(E, o)
        if r is not None:
            return r
    raise Unsupported('str(%r)' % (o,))


# ------------------------------------------------------------------ logging (dropped)
def install_logging(E):
    logger = Obj('Logger')

    @stub('logging.getLogger')
    def _get(E, args, kw):
        return logger
    noop = VStub('logging.<noop>', lambda E, a, k: NONE)
    ns = VNamespace('logging', dict(getLogger=_get, debug=noop, info=noop, warning=noop, error=noop,
                                    exception=noop, critical=noop))
    E.builtins[('import', 'logging')] = ns
    E.builtins[('attr', 'Logger')] = lambda E, o, name, node: noop


# ------------------------------------------------------------------ threading locks
def lock_keys(lock):
    return ('tl_depth', lock.oid), ('tl_owner', lock.oid)


def lock_state(E, lock):
    kd, ko = lock_keys(lock)
    d = wget(E, kd, lambda: E.fresh('tl_depth', z3.IntSort()))
    o = wget(E, ko, lambda: E.fresh('tl_owner', ThreadS))
    return d, o


def new_lock(E, reentrant, fresh=True):
    lk = Obj('TLock', dict(reentrant=reentrant if isinstance(reentrant, VBool) else VBool(reentrant)))
    if fresh:
        kd, ko = lock_keys(lk)
        E.w[kd] = z3.IntVal(0)
        E.w[ko] = E.fresh('tl_owner', ThreadS)
    return lk


def lock_acquire(E, lock, blocking=None, timeout=None):
    """threading.Lock / RLock .acquire(blocking=True, timeout=-1)

    Assumed (CPython): mutual exclusion; a timed acquire returns within its timeout; a
    non-blocking one returns at once; RLock re-acquisition by the owner never blocks; a
    Lock is not reentrant.  Other threads may acquire/release the lock concurrently, so
    unless this thread owns it the depth/owner read here are not stable.
    """
    blocking = blocking if blocking is not None else VBool(True)
    timeout = timeout if timeout is not None else VInt(-1)
    bl = E.truth(blocking)
    bl = z3.BoolVal(bl) if isinstance(bl, bool) else bl
    to = _real(E.unopt(timeout))
    # CPython argument checks: ValueError otherwise
    E.oblige('pre(Lock.acquire).timeout_is_-1_or_nonnegative', z3.Or(to == -1, to >= 0))
    E.oblige('pre(Lock.acquire).no_timeout_when_nonblocking', z3.Or(bl, to == -1))
    d, o = lock_state(E, lock)
    mine = z3.And(d >= 1, o == E.me)
    re = lock.fields['reentrant'].t
    kd, ko = lock_keys(lock)
    alts = [('reenter', z3.And(mine, re)),
            ('fresh', z3.Not(mine)),
            ('fail', z3.And(z3.Or(z3.Not(bl), to >= 0), z3.Not(z3.And(mine, re)))),
            ('self_deadlock', z3.And(mine, z3.Not(re), bl, to == -1))]
    tag = E.choose(alts, 'Lock.acquire')
    if tag == 'reenter':
        E.w[kd] = d + 1
        return VBool(True)
    if tag == 'fresh':
        # acquired, possibly after waiting for another owner to release it: ghost time passes,
        # bounded by the timeout when there is one, none at all for a non-blocking call
        t0 = now(E)
        t1 = E.fresh('now', z3.RealSort())
        E.assume(t1 >= t0)
        E.assume(z3.Implies(z3.Not(bl), t1 == t0))
        if getattr(E, 'timer_slack', False):
            # a lock handed over right AT the deadline: by the time the caller reads the clock again a little more
            # than the timeout may have gone by (platform timer slack, accounted for separately)
            eps = E.fresh('timer_slack', z3.RealSort())
            E.assume(eps >= 0)
            E.w['slack'] = wget(E, 'slack', lambda: z3.RealVal(0)) + eps
            E.assume(z3.Implies(z3.And(bl, to >= 0), t1 <= t0 + to + eps))
        else:
            E.assume(z3.Implies(z3.And(bl, to >= 0), t1 <= t0 + to))
        E.w['now'] = t1
        E.w[kd] = z3.IntVal(1)
        E.w[ko] = E.me
        prot = E.builtins.get(('lock_protects', lock.oid))
        if prot is not None:
            prot('acquired')
        return VBool(True)
    if tag == 'fail':
        # held by somebody (maybe by me, non-reentrant) for the whole wait
        t0 = now(E)
        E.w['now'] = z3.If(z3.And(bl, to >= 0), t0 + to, t0)
        return VBool(False)
    # self-deadlock: blocks forever; no continuation
    raise PathEnd()


def lock_release(E, lock):
    """release(): RuntimeError when not held (Lock: unlocked; RLock: not owned by the caller).
    A plain Lock may be released by any thread (CPython); that is allowed here only for its owner
    or raises as CPython does for an unlocked lock."""
    d, o = lock_state(E, lock)
    kd, ko = lock_keys(lock)
    mine = z3.And(d >= 1, o == E.me)
    re = lock.fields['reentrant'].t
    tag = E.choose([('ok', mine), ('notheld', z3.Not(mine))], 'Lock.release')
    if tag == 'ok':
        prot = E.builtins.get(('lock_protects', lock.oid))
        if prot is not None and E.branch(d == 1):
            prot('releasing')
        E.w[kd] = d - 1
        E.effect('TLock.release')
        return NONE
    # not held by me
    E.effect('TLock.release.notheld')
    h = E.builtins.get(('lock_release_notheld', lock.oid))
    if h is not None:
        h()
    # RLock: RuntimeError("cannot release un-acquired lock"); Lock: RuntimeError if unlocked,
    # but a Lock locked by ANOTHER thread would be released: forbidden by the ownership discipline
    E.oblige('pre(Lock.release).not_releasing_another_threads_lock', z3.Or(re, d == 0))
    E.throw('RuntimeError')


def install_threading(E):
    def _lock_attr(E, o, name, node):
        if name == 'acquire':
            return VStub('threading.Lock.acquire',
                         lambda E, a, k: lock_acquire(E, o, *(list(a) + [None, None])[:2], **{}) if not k else
                         lock_acquire(E, o, k.get('blocking', a[0] if a else None),
                                      k.get('timeout', a[1] if len(a) > 1 else None)))
        if name == 'release':
            return VStub('threading.Lock.release', lambda E, a, k: lock_release(E, o))
        return None
    E.builtins[('attr', 'TLock')] = _lock_attr
    ns = VNamespace('threading', dict(
        Lock=VStub('threading.Lock', lambda E, a, k: new_lock(E, False)),
        RLock=VStub('threading.RLock', lambda E, a, k: new_lock(E, True)),
    ))
    E.builtins[('import', 'threading')] = ns
    E.builtins[('import', 'threading:Lock')] = ns.attrs['Lock']


# ------------------------------------------------------------------ os / fcntl / time (kernel stub)
# World (one lock file = one inode is modelled; other paths are outside every property):
#   open_fds : Array Int Bool      descriptors open in this process
#   ofd_of   : Array Int Int       open file description of a descriptor (fresh per os.open)
#   flock_owner : Int              OFD holding the exclusive flock on the inode (0 = nobody)
#   my_fds   : Array Int Bool      ghost: descriptors opened by the function under proof
def fs(E):
    I, Bo = z3.IntSort(), z3.BoolSort()
    return dict(
        open_fds=wget(E, 'open_fds', lambda: E.fresh('open_fds', z3.ArraySort(I, Bo))),
        ofd_of=wget(E, 'ofd_of', lambda: E.fresh('ofd_of', z3.ArraySort(I, I))),
        flock_owner=wget(E, 'flock_owner', lambda: E.fresh('flock_owner', I)),
        next_ofd=wget(E, 'next_ofd', lambda: E.fresh('next_ofd', I)),
    )


def install_os(E):
    consts = {n: VInt(getattr(_real_os, n)) for n in
              ('O_RDWR', 'O_CREAT', 'O_TRUNC', 'O_EXCL', 'O_RDONLY', 'O_WRONLY', 'O_APPEND', 'O_CLOEXEC', 'O_NOFOLLOW',
               'O_NONBLOCK', 'O_SYNC', 'O_DSYNC', 'O_NOCTTY', 'O_DIRECTORY', 'SEEK_SET', 'SEEK_END') if hasattr(_real_os, n)}

    @stub('os.open')
    def _open(E, args, kw):
        """os.open(path, flags): returns a descriptor not open before, referring to a FRESH open
        file description; may raise OSError at any call (fault injection: nondeterministic)."""
        path, flags = args[0], args[1]
        E.effect('os.open', path, flags)
        tag = E.choose([('ok', None), ('OSError', None)], 'os.open')
        if tag == 'OSError':
            throw_oserror(E, 'os.open')
        w = fs(E)
        fd = E.fresh('fd', z3.IntSort())
        E.assume(fd >= 0)
        E.assume(z3.Not(z3.Select(w['open_fds'], fd)))
        ofd = w['next_ofd']
        E.assume(ofd >= 1)
        E.assume(w['flock_owner'] < ofd)          # existing OFDs are older
        E.w['next_ofd'] = ofd + 1
        E.w['open_fds'] = z3.Store(w['open_fds'], fd, True)
        E.w['ofd_of'] = z3.Store(w['ofd_of'], fd, ofd)
        E.w['n_open_mine'] = wget(E, 'n_open_mine', lambda: z3.IntVal(0)) + 1
        E.w['my_fds'] = z3.Store(wget(E, 'my_fds', lambda: z3.K(z3.IntSort(), False)), fd, True)
        return VInt(fd)

    @stub('os.close')
    def _close(E, args, kw):
        """os.close(fd): the descriptor is released even when close reports an error (Linux); closing
        the only descriptor of an OFD drops the flock that OFD holds."""
        fd = E.unopt(args[0])
        E.effect('os.close', fd)
        w = fs(E)
        E.oblige('pre(os.close).descriptor_is_open', z3.Select(w['open_fds'], fd.t), props=getattr(E, 'stub_props', None))
        ofd = z3.Select(w['ofd_of'], fd.t)
        E.w['open_fds'] = z3.Store(w['open_fds'], fd.t, False)
        E.w['flock_owner'] = z3.If(w['flock_owner'] == ofd, z3.IntVal(0), w['flock_owner'])
        mine = z3.Select(wget(E, 'my_fds', lambda: z3.K(z3.IntSort(), False)), fd.t)
        E.w['n_open_mine'] = wget(E, 'n_open_mine', lambda: z3.IntVal(0)) - z3.If(mine, 1, 0)
        E.w['my_fds'] = z3.Store(E.w['my_fds'], fd.t, False)
        tag = E.choose([('ok', None), ('OSError', None)], 'os.close')
        if tag == 'OSError':
            throw_oserror(E, 'os.close')
        return NONE

    def _other(name):
        def fn(E, args, kw):
            # not part of the lock protocol: recorded so that the frame condition (C13) names it
            E.effect('os.' + name, *args)
            if name in ('getpid',):
                return VInt(E.fresh('pid', z3.IntSort()))
            if name == 'fspath':
                return args[0]          # the same path as str/bytes: names the same file
            if name in ('path.abspath', 'path.realpath', 'path.normpath', 'path.expanduser', 'path.expandvars',
                        'path.normcase'):
                # SOME other spelling of the path: textual normalisation (`..` collapsed before symlinks are
                # resolved, `~` expanded, ...) may name a different file than the OS would open for the original
                return E.fresh_val('path_after_' + name.split('.')[-1])
            if name.startswith('path.'):
                return E.fresh_bool('exists')
            if name in ('fstat', 'stat', 'lstat'):
                # read-only look at the file: link count (0 = unlinked meanwhile), size, mode -- whatever they are
                nl = E.fresh('st_nlink', z3.IntSort())
                E.assume(nl >= 0)
                return Obj('stat_result', dict(st_nlink=VInt(nl), st_size=VInt(E.fresh('st_size', z3.IntSort())),
                                               st_mode=VInt(E.fresh('st_mode', z3.IntSort())),
                                               st_ino=VInt(E.fresh('st_ino', z3.IntSort())),
                                               st_dev=VInt(E.fresh('st_dev', z3.IntSort()))))
            return NONE
        return VStub('os.' + name, fn)
    others = {n: _other(n) for n in ('unlink', 'remove', 'rename', 'replace', 'write', 'read', 'fsync',
                                     'getpid', 'mkdir', 'link', 'symlink', 'ftruncate', 'fdopen', 'dup', 'dup2',
                                     'set_inheritable', 'get_inheritable', 'fork', 'kill', 'chmod', 'utime', 'stat',
                                     'fchmod', 'fchown', 'chown', 'fstat', 'lstat', 'truncate', 'lseek', 'fdatasync',
                                     'umask', 'fspath', 'makedirs')}
    path_ns = VNamespace('os.path', {n: _other('path.' + n) for n in (
        'exists', 'isfile', 'getmtime', 'abspath', 'realpath', 'normpath', 'expanduser', 'expandvars', 'normcase')})
    ns = VNamespace('os', dict(open=_open, close=_close, path=path_ns, **others, **consts))
    E.builtins[('import', 'os')] = ns

    LOCK = {n: getattr(_real_fcntl, n) for n in ('LOCK_EX', 'LOCK_SH', 'LOCK_NB', 'LOCK_UN')}

    @stub('fcntl.flock')
    def _flock(E, args, kw):
        """flock(fd, op) (kernel, assumed): LOCK_EX succeeds only if no OTHER open file description
        holds the lock on the inode, then this OFD holds it; with LOCK_NB it fails with OSError instead
        of waiting; LOCK_UN drops it; may raise OSError at any call (fault injection)."""
        fd = E.unopt(args[0])
        op = args[1].concrete() if isinstance(args[1], VInt) else None
        if op is None:
            raise Unsupported('flock with symbolic operation')
        E.effect('fcntl.flock', fd, op)
        w = fs(E)
        E.oblige('pre(flock).descriptor_is_open', z3.Select(w['open_fds'], fd.t), props=getattr(E, 'stub_props', None))
        ofd = z3.Select(w['ofd_of'], fd.t)
        if op & LOCK['LOCK_UN']:
            tag = E.choose([('ok', None), ('OSError', None)], 'flock(LOCK_UN)')
            if tag == 'OSError':
                throw_oserror(E, 'flock.unlock')
            E.w['flock_owner'] = z3.If(w['flock_owner'] == ofd, z3.IntVal(0), w['flock_owner'])
            return NONE
        excl = bool(op & LOCK['LOCK_EX']) and not (op & LOCK['LOCK_SH'])
        nb = bool(op & LOCK['LOCK_NB'])
        E.effect('flock.mode', 'EX' if excl else 'SH', 'NB' if nb else 'BLOCK')
        tag = E.choose([('ok', None), ('OSError', None)], 'flock(lock)')
        if tag == 'OSError':
            # EWOULDBLOCK (held by another OFD, LOCK_NB) or an injected fault
            throw_oserror(E, 'flock.lock')
        # another process/object may have taken or dropped the lock meanwhile: only OUR ofd is stable
        cur = E.fresh('flock_owner', z3.IntSort())
        E.assume(z3.Implies(w['flock_owner'] == ofd, cur == ofd))
        E.assume(cur < wget(E, 'next_ofd', lambda: z3.IntVal(1)))
        if not nb:
            advance(E)            # may wait for the holder
        if excl:
            E.assume(z3.Or(cur == 0, cur == ofd))   # kernel: granted only when no other OFD holds it
            E.w['flock_owner'] = ofd
        else:
            # shared lock: does not exclude other shared holders; modelled as NOT owning
            E.w['flock_owner'] = cur
        return NONE

    def _fc_other(name):
        def fn(E, args, kw):
            # not part of the lock protocol (descriptor duplication / flag changes / byte-range locks):
            # recorded so that the frame condition names it
            E.effect('fcntl.' + name, *args)
            return VInt(E.fresh('fcntl_result', z3.IntSort()))
        return VStub('fcntl.' + name, fn)
    fconst = {n: VInt(getattr(_real_fcntl, n)) for n in ('F_DUPFD', 'F_DUPFD_CLOEXEC', 'F_GETFD', 'F_SETFD', 'FD_CLOEXEC',
                                                         'F_GETFL', 'F_SETFL') if hasattr(_real_fcntl, n)}
    E.builtins[('import', 'fcntl')] = VNamespace('fcntl', dict(
        flock=_flock, fcntl=_fc_other('fcntl'), lockf=_fc_other('lockf'), ioctl=_fc_other('ioctl'),
        **fconst, **{k: VInt(v) for k, v in LOCK.items()}))
    E.builtins['__fcntl_consts__'] = LOCK

    @stub('time.time')
    def _time(E, args, kw):
        return VReal(now(E))

    @stub('time.sleep')
    def _sleep(E, args, kw):
        d = _real(args[0])
        E.effect('time.sleep', args[0])
        E.oblige('pre(time.sleep).nonnegative', d >= 0)
        advance(E, exact=d)
        return NONE
    E.builtins[('import', 'time')] = VNamespace('time', dict(time=_time, sleep=_sleep))
    E.builtins[('import', 'time:sleep')] = _sleep
    E.builtins[('import', 'abc')] = VNamespace('abc', dict(
        ABC=VClass('abc.ABC'), abstractmethod=VStub('abc.abstractmethod', lambda E, a, k: a[0])))
    E.builtins[('import', 'contextlib')] = VNamespace('contextlib', dict(
        contextmanager=VStub('contextlib.contextmanager', lambda E, a, k: a[0]),
        suppress=VStub('contextlib.suppress', lambda E, a, k: Obj('Suppress', dict(classes=list(a))))))


def install_with(E):
    def _with(E, cm, is_async, node):
        if isinstance(cm, Obj) and cm.cls == 'TLock':
            def enter():
                lock_acquire(E, cm)
                return cm

            def exit_(exc):
                lock_release(E, cm)
                return False
            return enter, exit_
        h = E.builtins.get('__with_ext__')
        if h is not None:
            r = h(E, cm, is_async, node)
            if r is not None:
                return r
        raise Unsupported('with on %r' % (cm,), node)
    E.builtins['__with__'] = _with


def install_all(E):
    install_builtins(E)
    install_logging(E)
    install_threading(E)
    install_os(E)
    install_with(E)
