"""Functions exercising the AST subset of pyvc; executed by CPython and by the pyvc executor on the same
concrete inputs (engine self-test: the executor's semantics for each node type is CPython's)."""


import contextlib


def f_branch(a, b):
    if a < b:
        r = 1
    elif a == b:
        r = 2
    else:
        r = 3
    return r + (10 if a > 0 else 20)


def f_chain(a, b, c):
    return (a <= b < c), (a < b) and (b < c), (a > b) or c, not a


def f_bool_short(a, b):
    x = a or b
    y = a and b
    return x, y


def f_aug(a, b):
    a += b
    a -= 1
    a *= 2
    t = (a, b)
    p, q = t
    p, q = q, p
    return p, q, max(0, a - 100), min(a, b)


def f_while(n):
    i = 0
    s = 0
    while True:
        if i >= n:
            break
        i += 1
        if i % 2 == 0 if False else i == 3:
            continue
        s += i
    return s, i


def f_for(n):
    s = 0
    for i in range(n):
        if i == 4:
            break
        s += i
    return s


def f_try(a):
    log = 0
    try:
        try:
            if a == 1:
                raise ValueError
            if a == 2:
                raise KeyError
            log += 1
        except ValueError:
            log += 10
            if a == 1:
                raise RuntimeError
        else:
            log += 100
        finally:
            log += 1000
    except RuntimeError:
        log += 10000
    except LookupError:
        log += 20000
    return log


def f_finally_return(a):
    def g():
        try:
            if a > 0:
                return 1
            return 2
        finally:
            pass
    return g() + 5


def f_closure(a):
    total = 0

    def add(x, y=3, *rest, k=7):
        nonlocal total
        total += x + y + k + len(rest)
        return total
    add(a)
    add(a, 1)
    add(a, 1, 2, 3, k=1)
    return total


def f_walrus_lambda(a):
    f = lambda x, y=2: x * y   # noqa: E731
    if (n := a + 1) > 3:
        return f(n)
    return f(n, 5)


def f_nested_except(a):
    r = 0
    try:
        try:
            raise KeyError
        except KeyError:
            try:
                if a:
                    raise ValueError
                r += 1
            except ValueError:
                r += 10
            raise
    except KeyError:
        r += 100
    return r


def f_is_none(a):
    x = None if a == 0 else a
    if x is None:
        return -1
    if x is not None and x > 5:
        return 1
    return 0


def f_bitor(a):
    return (1 | 2 | (0 if a else 4)), (7 & 3)


def f_slice(a, b, c):
    t = (a, b, c)
    return t[:2], t[1], t[-1], t + (1,)


def f_suppress(a):
    r = 0
    with contextlib.suppress(KeyError, ValueError):
        r += 1
        if a == 1:
            raise KeyError
        if a == 2:
            raise ValueError
        r += 10
    try:
        with contextlib.suppress(KeyError):
            if a == 3:
                raise IndexError
            r += 100
    except LookupError:
        r += 1000
    return r


def f_unbound(a):
    r = 0
    if a > 0:
        x = a
    try:
        r = x + 1
    except NameError:
        r = -1
    for y in (1, 2)[:a]:
        r += y
    try:
        s = f'{y}'
        r += 100
    except UnboundLocalError:
        r += 1000
    except Exception:
        r += 5000
    return r


def f_compif(a):
    xs = [x * 2 for x in (1, 2, 3, 4) if x > a if x != 3]
    ys = tuple(x + a for x in (5, 6) if x - a != 5)
    r = 0
    for x in xs:
        r += x
    for y in ys:
        r += 100 * y
    return r


CASES = {
    'f_compif': [(0,), (1,), (2,), (4,)],
    'f_unbound': [(0,), (1,), (2,), (-1,)],
    'f_branch': [(0, 1), (1, 1), (2, 1), (-1, -2)],
    'f_chain': [(1, 2, 3), (3, 2, 1), (1, 1, 0), (0, 0, 0)],
    'f_bool_short': [(0, 5), (3, 0), (0, 0), (2, 7)],
    'f_aug': [(1, 2), (200, 3), (0, 0)],
    'f_while': [(0,), (1,), (5,), (8,)],
    'f_for': [(0,), (3,), (9,)],
    'f_try': [(0,), (1,), (2,), (3,)],
    'f_finally_return': [(0,), (1,)],
    'f_closure': [(1,), (5,)],
    'f_walrus_lambda': [(0,), (3,), (7,)],
    'f_nested_except': [(0,), (1,)],
    'f_is_none': [(0,), (3,), (9,)],
    'f_bitor': [(0,), (1,)],
    'f_slice': [(1, 2, 3)],
    'f_suppress': [(0,), (1,), (2,), (3,)],
}
