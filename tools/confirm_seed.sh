#!/bin/bash
# usage: confirm_seed.sh <Cxx> <k> ; confirms a seeded change in a scratch worktree and stores it under /verif/seeded/
P=$1; K=$2; ROUND=${3:-1}
if [ "$ROUND" = "9" ]; then SRC=/tmp/seed9_$P/out; IDX=$((K+16)); [ "$P" = "C12" ] && IDX=$((K+18)); elif [ "$ROUND" = "8" ]; then SRC=/tmp/seed8_$P/out; IDX=$((K+14)); [ "$P" = "C12" ] && IDX=$((K+16)); elif [ "$ROUND" = "7" ]; then SRC=/tmp/seed7_$P/out; IDX=$((K+12)); [ "$P" = "C12" ] && IDX=$((K+14)); elif [ "$ROUND" = "6" ]; then SRC=/tmp/seed6_$P/out; IDX=$((K+10)); [ "$P" = "C12" ] && IDX=$((K+11)); elif [ "$ROUND" = "5" ]; then SRC=/tmp/seed5_$P/out; IDX=$((K+8)); [ "$P" = "C12" ] && IDX=$((K+9)); elif [ "$ROUND" = "4" ]; then SRC=/tmp/seed4_$P/out; IDX=$((K+6)); elif [ "$ROUND" = "3" ]; then SRC=/tmp/seed3_$P/out; IDX=$((K+4)); elif [ "$ROUND" = "2" ]; then SRC=/tmp/seed2_$P/out; IDX=$((K+2)); else SRC=/tmp/seed_$P/out; IDX=$K; fi
DST=/verif/seeded/${P}_$IDX
WT=/tmp/conf_${P}_$IDX
[ -f $SRC/patch$K.diff ] || { echo "$P $K: no patch"; exit 0; }
mkdir -p $DST
cp $SRC/patch$K.diff $DST/patch.diff; cp $SRC/demo$K.py $DST/demo.py; cp $SRC/meta$K.json $DST/agent_meta.json 2>/dev/null
git -C /repo worktree add -q --detach $WT HEAD || exit 3
cd $WT
PYTHONPATH=$WT timeout 120 /venv/bin/python $DST/demo.py > $DST/demo_pristine.log 2>&1; R0=$?
git apply $DST/patch.diff; AP=$?
PYTHONPATH=$WT timeout 120 /venv/bin/python $DST/demo.py > $DST/demo_patched.log 2>&1; R1=$?
PYTHONPATH=$WT timeout 900 /venv/bin/python -m pytest -q -p no:cacheprovider --timeout=900 -x --deselect aiuti/asyncio.py::aiuti.asyncio.to_async_iter --deselect aiuti/asyncio.py::aiuti.asyncio.to_sync_iter > $DST/tests_patched.log 2>&1; RT=$?
TS=$(tail -1 $DST/tests_patched.log)
cd /; git -C /repo worktree remove --force $WT; rm -rf $WT
tail -c 1500 $DST/demo_patched.log > $DST/demo_patched.tail; rm -f $DST/demo_pristine.log $DST/demo_patched.log; tail -3 $DST/tests_patched.log > $DST/tests.tail; rm -f $DST/tests_patched.log
python3 - <<PY
import json
try: am=json.load(open("$DST/agent_meta.json"))
except Exception: am={}
ok = ($R0==0 and $R1!=0 and $RT==0 and $AP==0)
json.dump({"property":"$P","summary":am.get("summary"),"needs":am.get("needs"),
 "ran":{"demo_on_pristine_exit":$R0,"patch_applies":$AP==0,"demo_with_patch_exit":$R1,"suite_with_patch_exit":$RT,"suite_tail":"""$TS"""},
 "confirmed":ok,"origin":"independent sub-agent given only the property text and a scratch worktree (round $ROUND)"},open("$DST/meta.json","w"),indent=1)
print("$P $IDX confirmed" if ok else "$P $IDX NOT CONFIRMED r0=$R0 r1=$R1 rt=$RT ap=$AP")
PY
