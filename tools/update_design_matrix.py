#!/usr/bin/env python3
"""Puts the current seeded/MATRIX.md (table and counts) into DESIGN.md section 10."""
import json
import os
import re

ROOT = os.path.dirname(os.path.dirname(os.path.abspath(__file__)))
p = os.path.join(ROOT, 'DESIGN.md')
s = open(p).read()
m = json.load(open(os.path.join(ROOT, 'seeded', 'MATRIX.json')))
rows = sum(len(r['checks']) for r in m)
ded = sum(1 for r in m for c in r['checks'].values() if 'deductive' in c['by'])
std = sum(1 for r in m for c in r['checks'].values() if c['by'] == ['stand-in'])
missed = sum(1 for r in m for c in r['checks'].values() if not c['by'])
seeds = sum(1 for r in m if r['name'].startswith('C'))
defects = sum(1 for r in m if not r['name'].startswith('C'))
table = open(os.path.join(ROOT, 'seeded', 'MATRIX.md')).read().strip()
line = ('**Result on the current machinery: %d rows (%d changes + %d defect reverts, D1 for two properties), %d caught by\n'
        'a failed obligation, %d by the stand-in, %d missed;' % (rows, seeds, defects, ded, std, missed))
s, n1 = re.subn(r'\*\*Result on the current machinery: .*?missed;', lambda _: line, s, count=1, flags=re.S)
i = s.index('| change | property | exit | caught by | failed obligation (first) |')
j = s.index('\n\n', i)
s = s[:i] + table + s[j:]
open(p, 'w').write(s)
print('DESIGN.md: %d rows, %d deductive, %d stand-in, %d missed (counts line replaced: %d)' % (rows, ded, std, missed, n1))
