#!/bin/bash
# runs every registered quick check; prints one line per property
cd /verif
for p in $(python3 -c "import json;print(' '.join(c['property_id'] for c in json.load(open('MANIFEST.json'))['checks']))"); do
  s=$(date +%s); out=$(timeout 1500 python3-vt -m pyvc check $p --tier ${1:-quick} 2>&1); rc=$?; e=$(date +%s)
  echo "$p rc=$rc $((e-s))s :: $(echo "$out" | grep -E "^(VIOLATION|KNOWN-FINDING)" | cut -c1-120 | tr '\n' '|') $(echo "$out" | tail -1 | cut -c1-160)"
done
