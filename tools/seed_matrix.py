#!/usr/bin/env python3
"""Runs the registered quick check of the property each seeded change breaks against a scratch copy of /repo
with the change applied (PYVC_REPO=<scratch>), and records who caught it.  Output: seeded/MATRIX.json + .md"""
import json, os, shutil, subprocess, sys, glob, re, concurrent.futures as cf
ROOT = os.path.dirname(os.path.dirname(os.path.abspath(__file__)))

def items():
    out = []
    for d in sorted(glob.glob(os.path.join(ROOT, 'seeded', 'C??_*'))):
        name = os.path.basename(d)
        patch = os.path.join(d, 'patch_rebased.diff') if os.path.exists(os.path.join(d, 'patch_rebased.diff')) else os.path.join(d, 'patch.diff')
        out.append((name, [name[:3]], patch))
    for line in open(os.path.join(ROOT, 'seeded', 'defects', 'INDEX.txt')):
        d, props, h = line.split()
        p = os.path.join(ROOT, 'seeded', 'defects', d + '_reintroduce.diff')
        hand = os.path.join(ROOT, 'seeded', 'defects', d + '_reintroduce_by_hand.diff')
        out.append((d, props.split(','), hand if os.path.exists(hand) else p))
    return out

def run_one(item):
    name, props, patch = item
    scratch = '/tmp/mx_' + name
    shutil.rmtree(scratch, ignore_errors=True)
    os.makedirs(scratch)
    shutil.copytree('/repo/aiuti', scratch + '/aiuti')
    r = subprocess.run(['patch', '-s', '-p1', '-i', patch], cwd=scratch, capture_output=True, text=True)
    res = dict(name=name, patch=os.path.relpath(patch, ROOT), applies=(r.returncode == 0), checks={})
    if r.returncode == 0:
        for p in props:
            env = dict(os.environ, PYVC_REPO=scratch, PYVC_EVIDENCE_DIR=scratch + '/ev', PYVC_REPLAY_DIR=scratch + '/rp')
            pr = subprocess.run(['python3-vt', '-m', 'pyvc', 'check', p, '--tier', 'quick'], cwd=ROOT, env=env,
                                capture_output=True, text=True, timeout=1500)
            viol = [l for l in pr.stdout.splitlines() if l.startswith('VIOLATION')]
            failed = []
            by = set()
            for l in viol:
                m = re.search(r'replay=(\S+)', l)
                try:
                    d = json.load(open(m.group(1)))
                    if d.get('kind') == 'deductive':
                        by.add('deductive'); failed.append(d['failed_obligation'])
                    else:
                        by.add('stand-in')
                except Exception:
                    pass
            summ = pr.stdout.strip().splitlines()[-1] if pr.stdout.strip() else ''
            res['checks'][p] = dict(exit=pr.returncode, caught=pr.returncode == 1, by=sorted(by),
                                    failed_obligations=sorted(set(failed))[:4], summary=summ[-160:])
    shutil.rmtree(scratch, ignore_errors=True)
    return res

if __name__ == '__main__':
    its = items()
    if len(sys.argv) > 1:
        # only the items matching the regular expression; results are merged into the existing MATRIX.json
        its = [i for i in its if re.search(sys.argv[1], i[0])]
    with cf.ThreadPoolExecutor(8) as ex:
        results = list(ex.map(run_one, its))
    mj = os.path.join(ROOT, 'seeded', 'MATRIX.json')
    if len(sys.argv) > 1 and os.path.exists(mj):
        old = {r['name']: r for r in json.load(open(mj))}
        for r in results:
            old[r['name']] = r
        present = {i[0] for i in items()}
        old = {k: v for k, v in old.items() if k in present}      # a change that was refiled or removed has no row
        results = [old[k] for k in sorted(old, key=lambda n: (n[0] != 'C', n))]
    json.dump(results, open(mj, 'w'), indent=1)
    with open(os.path.join(ROOT, 'seeded', 'MATRIX.md'), 'w') as f:
        f.write('| change | property | exit | caught by | failed obligation (first) |\n|---|---|---|---|---|\n')
        for r in results:
            if not r['applies']:
                f.write('| %s | - | - | patch does not apply to the current tree | |\n' % r['name'])
            for p, c in r['checks'].items():
                fo = (c['failed_obligations'] or [''])[0].split('/', 1)[-1][:90]
                f.write('| %s | %s | %d | %s | %s |\n' % (r['name'], p, c['exit'], '+'.join(c['by']) or ('MISSED' if c['exit'] == 0 else 'exit %d' % c['exit']), fo))
    print(open(os.path.join(ROOT, 'seeded', 'MATRIX.md')).read())
