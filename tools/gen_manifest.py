#!/usr/bin/env python3
"""Regenerates /verif/MANIFEST.json from contracts/registry.py (run under python3-vt or python3)."""
import json, os, sys
ROOT = os.path.dirname(os.path.dirname(os.path.abspath(__file__)))
sys.path.insert(0, ROOT)
import importlib.util
spec = importlib.util.spec_from_file_location('registry', os.path.join(ROOT, 'contracts', 'registry.py'))
reg = importlib.util.module_from_spec(spec); spec.loader.exec_module(reg)
props = [json.loads(l) for l in open(os.path.join(ROOT, 'properties.jsonl'))]
REPLAY = ("python3 -c \"import json,subprocess,sys,os;d=json.load(open('{path}'));r=d.get('replay') or {};"
          "print(d.get('failed_obligation'));"
          "sys.exit(subprocess.call(r['cmd'],shell=True,cwd='/verif',env=dict(os.environ,PYTHONPATH='/repo:/verif')) if r.get('cmd') else 1)\"")
checks, na = [], []
for p in props:
    pid = p['id']
    info = reg.PROPERTIES.get(pid)
    if info is None or info.get('not_applicable'):
        na.append({"property_id": pid, "reason": (info or {}).get('not_applicable', 'check not built yet; planned contracts in DESIGN.md section 4')})
        continue
    cat = info.get('category', 'proof')
    checks.append({
        "property_id": pid,
        "quick_cmd": "python3-vt -m pyvc check %s --tier quick" % pid,
        "thorough_cmd": "python3-vt -m pyvc check %s --tier thorough" % pid,
        "evidence_file": "evidence/%s.json" % pid,
        "replay_cmd_template": REPLAY,
        "engine": "pyvc",
        "level_claimed": {"category": cat, "text": info['explanation'], "design_ref": "DESIGN.md section 4, " + pid},
        "level_note": "ASSUMED: " + "; ".join(info.get('assumptions', [])) + (". NOT DECIDED: " + "; ".join(info['not_decided']) if info.get('not_decided') else "") + ". Trusted base: the pyvc VC generator, z3/cvc5, stub contracts of library calls (listed per run in the evidence file).",
        "technique": info.get('technique', 'contract-based deductive verification: sidecar contracts, AST->VC symbolic execution of the real source, z3 (cvc5 on unknown)'),
    })
m = {"version": 1, "setup_cmd": "python3-vt -m pyvc selfcheck", 
     "hooks": {"guard": "AIUTI_VERIF", "enable": "no hooks: contracts are sidecar files under /verif/contracts; /repo source is read through ast on every run",
               "baseline_off_cmd": "cd /repo && /venv/bin/python -m pytest -ra -q -p no:cacheprovider --timeout=900 --continue-on-collection-errors",
               "source_commits": [], "add_only": True},
     "engines": [{"name": "pyvc", "path": "pyvc/", "serves_properties": [c['property_id'] for c in checks],
                  "kind_free_text": "verification-condition generator (path-splitting symbolic executor over the Python AST of /repo, loop invariants, contracts at call sites, exception edges, ghost clock) discharging with z3 then cvc5; bounded scenario stand-ins under scenarios/ run on the real code under /venv/bin/python"}],
     "checks": checks,
     "notes": "Exit codes of every check: 0 held / 1 violation (VIOLATION line) / 2 undecided without stand-in / 3 checker failure. Known findings: known_findings.txt. Seeded changes: seeded/. See DESIGN.md.",
     "not_applicable": na}
json.dump(m, open(os.path.join(ROOT, 'MANIFEST.json'), 'w'), indent=1)
print('checks:', [c['property_id'] for c in checks]); print('not_applicable:', [n['property_id'] for n in na])
